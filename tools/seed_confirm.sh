#!/bin/bash
# usage: seed_confirm.sh <src-dir containing patch.diff, meta.json, demo*> <seed-name> <demo-kind> <demo-target>
#   demo-kind: test <pkgdir> <TestName>   |  main <dirname>
# Confirms in a scratch worktree that the change compiles, passes the existing suite, and that the
# demonstration fails with the change and passes without it. On success copies it to /verif/seeded/<seed-name>.
set -u
export GOFLAGS=-mod=mod GOPROXY=off GOSUMDB=off GOTOOLCHAIN=local
SRC=$1; NAME=$2; KIND=$3; shift 3
WT=/tmp/seedconfirm_$NAME
LOG=/tmp/seedconfirm_$NAME.log
exec >$LOG 2>&1
git -C /repo worktree remove --force $WT 2>/dev/null
git -C /repo worktree add --detach $WT HEAD || exit 2
cd $WT
rundemo() {
  if [ "$KIND" = test ]; then
    cp $SRC/demo_test.go $WT/$1/zz_seed_demo_test.go
    go test -vet=off -count=1 -run "$2" ./$1/ ; rc=$?
    rm -f $WT/$1/zz_seed_demo_test.go
    return $rc
  else
    mkdir -p $WT/$1 && cp $SRC/demo.go $WT/$1/main.go
    go run ./$1 ; rc=$?
    rm -rf $WT/$1
    return $rc
  fi
}
echo "== demo without the change"; rundemo "$@"; RC0=$?
git apply $SRC/patch.diff || { echo "PATCH DOES NOT APPLY"; cd /; git -C /repo worktree remove --force $WT; exit 3; }
echo "== build"; go build ./... ; RCB=$?
echo "== demo with the change"; rundemo "$@"; RC1=$?
echo "== suite (xreflect apart: TestFromReflect6 fails on the unchanged tree too)"
go test -vet=off -count=1 . ./fast/... ./base/... ./ast2/... ./go/etoken/... ./go/scanner/... ./go/parser/... ./go/typeutil/... ./classic/... ./gls/... > $LOG.suite 2>&1
go test -vet=off -count=1 ./xreflect/... 2>&1 | grep -- "^--- FAIL" | grep -v TestFromReflect6 >> $LOG.suite
grep -- "^--- FAIL\|^FAIL\|panic:" $LOG.suite | head
SUITE=$(grep -c -- "^--- FAIL\|^FAIL\|panic:" $LOG.suite)
cd /
git -C /repo worktree remove --force $WT
echo "RESULT name=$NAME demo_without=$RC0 build=$RCB demo_with=$RC1 suite_fail_lines=$SUITE"
if [ $RC0 = 0 ] && [ $RCB = 0 ] && [ $RC1 != 0 ] && [ "$SUITE" = 0 ]; then
  mkdir -p /verif/seeded/$NAME && cp $SRC/patch.diff $SRC/meta.json /verif/seeded/$NAME/ && cp $SRC/demo* /verif/seeded/$NAME/
  echo "CONFIRMED"
else
  echo "NOT CONFIRMED"
fi
