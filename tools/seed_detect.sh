#!/bin/bash
# usage: seed_detect.sh <seed-name> <property-id>...
# Applies /verif/seeded/<seed-name>/patch.diff to /repo, runs the quick checks of the given
# properties, prints their summary lines and undoes the change.
set -u
NAME=$1; shift
cd /repo || exit 2
if ! git diff --quiet; then echo "/repo has uncommitted changes"; exit 2; fi
git apply /verif/seeded/$NAME/patch.diff || { echo "patch does not apply"; exit 3; }
for P in "$@"; do
  # the evidence file of the unchanged tree must survive this run on a changed tree
  cp /verif/evidence/$P.json /tmp/seed_detect_evidence_$P.json 2>/dev/null
  /verif/bin/gowp check $P > /tmp/seed_detect_${NAME}_$P.log 2>&1
  rc=$?
  cp /verif/evidence/$P.json /tmp/seed_detect_${NAME}_$P.evidence.json 2>/dev/null
  cp /tmp/seed_detect_evidence_$P.json /verif/evidence/$P.json 2>/dev/null
  echo "seed=$NAME property=$P exit=$rc $(grep -c '^VIOLATION' /tmp/seed_detect_${NAME}_$P.log) violation lines; $(tail -1 /tmp/seed_detect_${NAME}_$P.log)"
  grep '^VIOLATION' /tmp/seed_detect_${NAME}_$P.log | head -3 | cut -c1-260
done
git checkout -- .
git status --short | head -3
