#!/usr/bin/env python3
"""Regenerates /verif/MANIFEST.json from the tables below (kept in step with gowp/cmd/gowp/props.go)."""
import json, subprocess

TECH = "contract-based deductive verification (VC generation over go/ssa of the working tree, //@ contracts, SMT-discharged)"

CLAIMS = {
 "C01": dict(
  text="every closure created by the compile functions of the arithmetic, bitwise, comparison, equality and unary operators and of variable reads (binary_ops.go, binary_relops.go, binary_eqlneq.go, unary_ops.go, identifier.go: about 890 closures) is proved to return the Go operator applied to its operands in the kind selected on its path, to call the operand closures once and in Go's order, to read the slot of the right frame / storage class / width, and to have no other effect; for all operand values and all environments",
  note="trusted: reflect.Value accessor specs, xreflect.Type.Kind purity, environment invariant (FileEnv), operand well-formedness, go/ssa front end, SMT solvers. Not covered: shortcut returns (x+0, x*0, power-of-two rewrites), shifts, &&/||, interface comparisons, dispatch, composition over expression trees (paper induction)",
  ref="DESIGN.md section 5 C01, section 4"),
 "C37": dict(
  text="binarySearch, prefixSearch, removeCmd, Cmds.Lookup/Add/Del are verified against requires/ensures/loop-invariant contracts for all inputs (unbounded slices, arbitrary strings): unique prefix / exact name / ambiguity / no match exactly as stated, termination, no out-of-range access, frame conditions",
  note="trusted: string order/prefix axioms, assumed contract of sortCmdList (sort.Slice), errors.New, strings.Join, go/ssa front end, SMT solvers; Interp.Cmd fall-through and the text of the ambiguity message are not under contract",
  ref="DESIGN.md section 5 C37"),
}

NA = {
}

def main():
    props = [json.loads(l) for l in open('/verif/properties.jsonl')]
    commits = subprocess.run(['git', '-C', '/repo', 'log', '--format=%h %s'], capture_output=True, text=True).stdout.splitlines()
    hooks = [c.split()[0] for c in commits if c.split(' ', 1)[1].startswith('verif:')]
    checks = []
    na = []
    for p in props:
        i = p['id']
        if i in CLAIMS:
            c = CLAIMS[i]
            checks.append({
                "property_id": i,
                "quick_cmd": f"/verif/bin/gowp check {i} --tier quick",
                "thorough_cmd": f"/verif/bin/gowp check {i} --tier thorough",
                "evidence_file": f"/verif/evidence/{i}.json",
                "replay_cmd_template": "/verif/bin/gowp replay {path}",
                "engine": "gowp",
                "level_claimed": {"category": "proof", "text": c['text'], "design_ref": c['ref']},
                "level_note": c['note'],
                "technique": TECH,
            })
        else:
            na.append({"property_id": i, "reason": NA.get(i, "not built yet in this round (design in DESIGN.md section 5); no check is claimed")})
    m = {
        "version": 1,
        "setup_cmd": "cd /verif/gowp && GOFLAGS=-mod=vendor GOPROXY=off GOSUMDB=off GOTOOLCHAIN=local go build -o /verif/bin/gowp ./cmd/gowp",
        "hooks": {
            "guard": "verif",
            "enable": "-tags verif (adds the comment-only contract files <pkg>/zz_verif_*.go; no executable hook)",
            "baseline_off_cmd": "for m in $(cat /w/out/gomods.txt); do MF=$(cd /repo/$m && . /w/out/goenv.sh && gomodflag); (cd /repo/$m && go test $MF -json -vet=off -count=1 -timeout 25m ./...); done",
            "source_commits": hooks,
            "add_only": True,
        },
        "engines": [{"name": "gowp", "path": "/verif/gowp", "serves_properties": sorted(CLAIMS), "kind_free_text": "contract-based deductive verification: VC generation over go/ssa of the working tree, contracts in //@ side-car files, obligations discharged by z3 5.1 / z3 4.8.12 / cvc5 1.0.3"}],
        "checks": checks,
        "not_applicable": na,
        "notes": "see DESIGN.md; known findings in known_findings.txt",
    }
    json.dump(m, open('/verif/MANIFEST.json', 'w'), indent=1)
    print(len(checks), "checks,", len(na), "not applicable")

main()
