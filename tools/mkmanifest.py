#!/usr/bin/env python3
"""Regenerates /verif/MANIFEST.json from the tables below (kept in step with gowp/cmd/gowp/props.go)."""
import json, subprocess

TECH = "contract-based deductive verification (VC generation over go/ssa of the working tree, //@ contracts, SMT-discharged)"

CLAIMS = {
 "C01": dict(
  text="every closure created by the compile functions of the arithmetic, bitwise, comparison, equality and unary operators and of variable reads (binary_ops.go, binary_relops.go, binary_eqlneq.go, unary_ops.go, identifier.go: about 890 closures) is proved to return the Go operator applied to its operands in the kind selected on its path, to call the operand closures once and in Go's order, to read the slot of the right frame / storage class / width, and to have no other effect; for all operand values and all environments. Returns that create no closure are checked against the same equation: returning an operand (x+0, x*1 ...: alias returns, per kind), returning the result of another compile function under contract (delegated returns: mulPow2, quoPow2, remPow2, exprZero, UnaryMinus), and the power-of-two rewrites themselves (x*2^k as shift, x/2^k and x%2^k with the sign fix-ups, case-split over the 64 exponents for wide kinds); integerLen is verified as a function; the shift operators (binary_shifts.go, 66 closures): x << y and x >> y in the kind of x with Go's rule for counts not below the width, for the three shapes (both operands computed, constant count, constant left operand), the count function called once and after the left operand, a constant count of zero handing the left operand back; the count function (Expr.AsUint64): uint64 of the count, evaluated once, panicking exactly for a negative count of a signed kind",
  note="trusted: reflect.Value accessor specs, xreflect.Type.Kind purity, environment invariant (FileEnv), operand well-formedness, go/ssa front end, SMT solvers. assumed: contract of isLiteralNumber, constants are never negative zero, the Value of a constant has the kind of its Type, compile functions only allocate. Not covered: prepareShift, count functions over reflect.Value operands, &&/||, interface comparisons, dispatch, composition over expression trees (paper induction)",
  ref="DESIGN.md section 5 C01, section 4"),
 "C02": dict(
  text="every closure created by the compile functions of assignment and compound assignment to a variable (var_set.go, var_ops.go: varSetConst, varSetExpr, var{Add,Sub,Mul,Quo,Rem,And,Or,Xor,Andnot}{Const,Expr}; about 5400 obligations) is proved to store Go's result of the operation, in the variable's kind, into the slot of the right frame / storage class / width, to evaluate the right-hand side exactly once, to return the next statement, and to leave every other slot, frame and heap cell unchanged; for all values and all environments; a compile function that returns no statement (x += 0, x *= 1 ...) or another compile function's statement (x /= -1 -> x *= -1) is checked against the same equation, per kind and storage class",
  note="trusted: reflect.Value accessor/setter specs, double-rounding and narrow-division lemmas, xreflect.Type.Kind purity, go/ssa front end, SMT solvers. The dispatch of setVar / setPlace is under contract (each compile function is reached only under its own operator; no Go assignment operator with compatible operands ends in a compile error); IncDec hands x++ / x-- over as += / -=. Not covered (no contract): the closures for places other than variables (place_*.go) and for shift-assignments, varQuoPow2, multi-assignment ordering (assign2/assignMulti), non-basic kinds of varSet* (closure partial), composition with the rest of the program",
  ref="DESIGN.md section 5 C02"),
 "C05": dict(
  text="the control-transfer closure shared by break, continue and goto (Comp.jumpOut: depth 0, 1, 2 and the generic loop) is proved to leave exactly upn frames, to continue at the statement index the label holds when the jump runs, in that frame, and to change nothing else - for all environments; Comp.Goto is proved to find a label declared in the scope of the goto or in a scope around it up to and including the function's own (stated up to two scopes out, loop verified for any depth) and never to end in 'label not found' for such a label; the closures of range-over-string are proved (frame-only contract) to write nothing but the hidden position variable, the statement index and the destination of the rune in the frame it lives in, the direct store being chosen only for an int32 slot of Env.Ints",
  note="trusted: go/ssa front end, SMT solvers, frame-chain model (up()). Not covered: every other control construct (if/for/switch/select/range layout and closures, label resolution of break/continue, jump tables), forward goto (documented limitation), composition into programs",
  ref="DESIGN.md section 0.1, section 5 C05"),
 "C06": dict(
  text="second sentence of the property (a recycled frame is never observable): freeEnv, newEnv, NewEnv, FreeEnv, freeEnv4Func, MarkUsedByClosure are verified against a representation invariant of Run.Pool (poolOK: pooled frames are distinct, not captured by a closure, no escaped slot address, detached) - a frame marked UsedByClosure is never pooled and keeps its slots; a frame whose slot address was taken gives up its Ints array before pooling; newEnv hands out a frame that is no longer in the pool; memory safety of the pool indices; every address-of closure of Var.Address (198 closures: kind x depth x storage class) sets IntAddressTaken on the frame the variable lives in - not the current one - and writes nothing else; the closures of call0ret0 (a call f() of a function variable at depth 0, 1, 2, generic) call the function the variable holds now, once, and do nothing else - the file-level variant, which calls a cached function, is a recorded known finding (F23)",
  note="trusted: go/ssa front end, SMT solvers, heap model (type-based field arrays). Not covered: first sentence (call results equal compiled Go: call*.go / func*ret*.go specialisations), that each function-creating closure marks its frame and frees it exactly once (typestate over func0ret0..), newEnv4Func, the value of the pointer an address-of closure returns; assumed: reflect / xreflect Value.Addr, Interface have no effect, only the 16 unboxable kinds have class IntBind, environment invariant (FileEnv)",
  ref="DESIGN.md section 5 C06"),
 "C12": dict(
  text="every-exit contracts on the executor: restore, pushDefer/popDefer, applyDebugOp/applyAsyncSignal, the function literal that runs one deferred call (reExecWithFlags$1), reExecWithFlags (all 109 normal and panicking exits, deferred calls registered in loops included), exec$1, execWithFlags$1, Interp.RunExpr/DebugExpr and prepareEnv are proved to leave ExecFlags.IsDefer/StartDefer, DeferOfFun, Interrupt and CurrEnv as found and to start each evaluation with no pending signal and debugger mode off - on a normal return and on a panic raised at any call, in a deferred call or while another panic unwinds; plus syntactic writers scans (no other function of package fast can write those Run fields)",
  note="trusted: assumed contract of every Stmt value (returns a non-nil frame of the same Run), assumed frames of Expr.ConstTo/DefaultType, DebugOpContinue is never reassigned, Signals.IsEmpty model, go/ssa front end, SMT solvers; the induction over executor nesting that combines the contracts is a paper step; PanicFun/Panic/InstallDefer not covered; writers scan limited to package fast",
  ref="DESIGN.md section 5 C12"),
 "C14": dict(
  text="second sentence of the property (slot storage of globals never relocates after an address was taken, however many declarations follow): CompBinds.NewBind, Comp.NewBind (slot counter never exceeds IntBindMax, complex128 takes two slots), Interp.prepareEnv (never reallocates Env.Ints once IntAddressTaken, never raises the internal error, keeps all slots) and a call-site assertion in Interp.CompileAst (IntBindMax is refreshed before compiling) are verified for all inputs; lemma replRound composes them over one REPL round",
  note="trusted: go/ssa front end, SMT solvers; assumed: Comp.Compile reaches NewBind only through Comp.NewBind and leaves IntBindMax alone (paper step tying the contracts to lemma replRound). Not covered: first sentence (each evaluation sees earlier effects; results equal compiled Go) - whole-program",
  ref="DESIGN.md section 5 C14"),
 "C34": dict(
  text="first half of the property (basic types): every function literal that Universe.addBasicTypeMethodsCTI installs for method M of basic kind K (279 literals: Equal, Cmp, Less, Add, Sub, Mul, Quo, Rem, Neg, And, AndNot, Or, Xor, Not, Lsh, Rsh, Real, Imag, Index, Len, Slice x 17 kinds) is proved to return the Go operator / builtin of that name on the same operands, evaluated in K by Go's rules (wrap-around, IEEE, shift counts), for all operand values, and to have no effect; a literal without a clause, or a clause without a literal, fails",
  note="trusted: go/ssa front end, SMT solvers, machine arithmetic as specified by Go; strings are an uninterpreted model (Index/Slice/Len compared through the same indexing function). Not covered: container methods through reflection (cti_method.go), method resolution in the compiler, signatures in go/types/cti_method.go",
  ref="DESIGN.md section 0.1, section 5 C34"),
 "C07": dict(
  text="thin: the bookkeeping rule behind recover, for all states: callRecover is honoured exactly when it is called directly by a deferred function (Defer flag) of the function that is panicking (DeferOfFun == PanicFun != nil) - then it consumes the panic (Panic and PanicFun cleared); otherwise it returns nil and leaves the panic untouched ('does not stop the panic'); pushDefer marks a function as the panicking one only while panicking and popDefer restores the enclosing deferred-call context; maybeRepanic lets the panic go on exactly when no deferred call recovered it",
  note="trusted: go/ssa front end, SMT solvers, reflect accessor specifications, Debugf prints only. Not covered: order of deferred calls, results, escaping panics for whole programs (compositions of the executor), Comp.Defer, the recovered value when not nil",
  ref="DESIGN.md section 0.1, section 5 C07"),
 "C13": dict(
  text="thin: the interrupt path function by function, for all states: Run.interrupt records the request as the pending asynchronous signal (SigInterrupt, or SigDebug when both debugger options are set); spinInterrupt - the statement that replaces every statement while a signal is pending - never hands control back with an interrupt pending: it ends in the interrupt panic with the signal cleared; applyAsyncSignal clears the pending signal on every exit and returns normally only for 'none' and 'debug'; restore applies a pending interrupt when a function exits",
  note="trusted: go/ssa front end, SMT solvers. Not covered: the bound on the number of statements executed before the poll (unrolled executor loops), asynchronous delivery from another goroutine (sequential model), 'same results afterwards' (C12)",
  ref="DESIGN.md section 0.1, section 5 C13"),
 "C15": dict(
  text="thin: only the mechanism the property names for functions: a function (or macro) declaration that fails to compile - any panic, from any point after the signature was computed - leaves the name bound to exactly what it was bound to when DeclFunc was entered (the previous function, or nothing), whatever the failed compilation did in between; proved over every panic exit of Comp.DeclFunc with its deferred restore; the same for a named type declaration: once Comp.DeclType has forward-declared the name, any panic leaves Types[name] what it was on entry, or absent if it was absent",
  note="trusted: go/ssa front end, SMT solvers, Comp.TypeFunction declares nothing in the enclosing scope, the contract of NewBind (verified under C14). Not covered: variables, constants and types of earlier declarations of the failing input (no roll-back exists: finding F12, hand-confirmed, recorded in DESIGN.md, not derived), methods and generic functions, compile-before-run, type redefinition",
  ref="DESIGN.md section 0.1, section 5 C15"),
 "C19": dict(
  text="partial: the documented stop rule, for all states: singleStep asks the debugger before a statement exactly when single-stepping is on and the call depth of the statement's frame is below the requested depth (both directions: a call-site assertion and a ghost call history), and hands the statement back untouched when single-stepping is off; applyDebugOp switches single-stepping on with the requested depth for Depth > 0 and off otherwise; the commands ask for depth: step = DebugOpStep, next = current depth + 1, finish = current depth, continue = DebugOpContinue - which is 'any depth / same or shallower / shallower / never'",
  note="trusted: go/ssa front end, SMT solvers, the assumed contract of Stmt. Not covered: transparency (same results with and without the debugger: two executions), the command table (a package-level map), explicit breakpoints, Interp.debug, Debugger.main",
  ref="DESIGN.md section 0.1, section 5 C19"),
 "C20": dict(
  text="thin: only the third mechanism the property names, 'trivial wrapper removal keeping declaration blocks' (base.unwrapTrivialAst2, behind UnwrapTrivialAst / UnwrapTrivialAstKeepBlocks), for all inputs with a loop invariant: the result is never a parenthesis, an expression statement or a declaration statement wrapper; something that is no wrapper comes back as it is; with blocks kept a block comes back as it is; a block whose only statement is a declaration is never unwrapped",
  note="trusted: go/ssa front end, SMT solvers, the closed world of Ast wrapper types (ast2). Not covered: macro expansion proper (code walk, macro call detection, argument consumption, repetition, quote / quasiquote), blocks holding one `x := ...`, SimplifyNodeForQuote",
  ref="DESIGN.md section 0.1, section 5 C20"),
 "C22": dict(
  text="partial: lemma functions (Go code under the build tag, calling the real methods) with contracts, for each of the 53 wrapper types: unwrapping a wrapped node returns the node (ToNode(ToAst(n)) == n for every node type, by case split over the wrapper types); the empty copy made by New is a fresh node of the same type with the same token, string, boolean and channel-direction attributes and the same 'if any' positions (alias '=', call '...', declaration '(', 'func'); Size is the documented constant and Get can be called for exactly the indexes 0..Size-1 (it fails for every other index); slot by slot, the child read with Get(i) and stored with Set(i) into an empty copy is the child (same node, same list), for each of the 79 child slots of the 46 fixed-size wrappers - for all nodes, not a corpus",
  note="trusted: go/ssa front end, SMT solvers, closed world (every Ast value is one of the compiled wrapper types, generated interpreter proxies excepted), children of a node are nodes of the wrapped types and no typed nil pointers. BlockStmtToExpr changes nothing. Not covered: the round trip as one statement for nodes with several children (proved per slot), children of the wrong kind (Set converts them), Go 1.18 type parameter lists, list-like wrappers beyond New, Append / Slice, Package (TODO in the code), positions / resolution information / comments",
  ref="DESIGN.md section 0.1, section 5 C22"),
 "C26": dict(
  text="partial: the character-level state machine of base.ReadMultiline, for every input and every byte: the reader's mode after the byte is the lexical state Go's grammar assigns (code, after '/', line comment, general comment, general comment after '*', string / raw string / rune literal, after a backslash inside one; '#!' opens a line comment) and the bracket depth counts exactly the brackets read in code - stated as a transition relation of one loop iteration (loop step clauses) and proved for all iterations; so the mode 'code' and depth 0, in which alone a chunk is cut, mean 'not inside a string, raw string, rune, comment or unbalanced bracket'",
  note="trusted: go/ssa front end, SMT solvers, Readline hands over lines that end in a newline. lastIsKeywordIgnoresNl: index safety, the keyword table is asked whenever the line (between first and last) ends in a lower-case letter, and the answer is the table's (every keyword but break, continue, fallthrough, return). Not covered: losslessness of the concatenation, the line-continuation rules for operators and commas, which word is looked up, the cut test itself, prompts, first-token position, EvalReader / ReadParseEvalPrint",
  ref="DESIGN.md section 0.1, section 5 C26"),
 "C27": dict(
  text="partial (the second sentence of the property, and one step of the first): one Interp.Read advances the line counter by exactly the newlines of the text in front of the first token of the chunk it returns (all of the text when it has no token, nothing when the token comes first), counted from the value the counter has when the reader returns; and for every position and every starting line, File.PositionFor / Position give the standard token.File position with the line shifted by the file's starting line when that position is valid, and unchanged otherwise (file name, column, offset never change); FileSet.PositionFor does so for the file the position belongs to and gives the zero position when there is none; File.Source hands out exactly the source line of that (unshifted) line number, or nothing when it is out of range; AddFile registers the file under its inner file with the starting line given",
  note="trusted: token.File.PositionFor and token.FileSet.File pure, token.Position.IsValid() == (Line > 0), sync.Mutex without effect in the sequential model, go/ssa front end, SMT solvers. strings.Count an uninterpreted function. Not covered: afterEval (the rest of the chunk), histories of reads, and that errors / panics / debugger stops report these positions",
  ref="DESIGN.md section 0.1, section 5 C27"),
 "C28": dict(
  text="partial: (0) sameName implements the identifier rule of the Go specification exactly (same spelling, and exported or same package path; a missing package equals only a missing package); (1) Identical, IdenticalIgnoreTags, identical, identicalVar and Hasher.Hash, hashFor, hashTuple, hashVar, hashNamed, hashString return without failing (no index out of range, nil dereference, failed assertion, explicit panic, nil-map write) and write nothing but the hasher's memo table, for every well-formed type, with loop invariants; (2) the type-keyed map at bucket level, for all states: At returns the value of the first live entry of the key's bucket that Identical matches, else nil; Delete removes exactly that entry, reports whether there was one, adjusts the length by it, leaves every other entry and bucket as it was; Set replaces the value of that entry, or adds (key, value) in a dead slot or at the end, length +1, everything else as it was; Len returns the length",
  note="trusted: well-formedness of types (go/types/zz_verif_types.go: no nil element, no typed nil component, embedded interfaces named), purity of Identical and Hash, go/ssa front end, SMT solvers. Not covered: reflexivity, symmetry, transitivity, 'identical implies equal hash' (relational properties over recursive structure: need induction over two runs; exercised only by the replay search), termination on cyclic types, Iterate/Keys/Values/String, that different buckets hold no identical keys",
  ref="DESIGN.md section 0.1, section 5 C28"),
 "C36": dict(
  text="thin: of the three anchored mechanisms only 'sort and de-duplicate' is under contract: sortUnique is proved, for all inputs, to return a strictly increasing slice (sorted, no duplicates), not longer than its input, non-empty for a non-empty input, every element of which occurs in the input; loop invariants, termination, index safety",
  note="trusted: sort.Strings specification (sorted permutation), string order model, go/ssa front end, SMT solvers. Not covered: that no input element is lost; word splitting, scope search, field/method listing, head/tail reassembly",
  ref="DESIGN.md section 0.1, section 5 C36"),
 "C17": dict(
  text="thin: only the string-list utilities the sorter is built on are under contract: remove_item_inplace (what remains is exactly, in order, the elements different from the removed one when it is absent; never contains it; nothing invented; same backing array), dup (equal copy in a different array), sort_unique_inplace (strictly increasing, nothing invented); for all inputs, with loop invariants and index safety",
  note="trusted: sort.Strings specification, string order model, go/ssa front end, SMT solvers. Not covered: the graph algorithm, determinism and source stability, cycle diagnostics, phase split, free-name extraction - i.e. the substance of the property; listed as claimed only for the utility layer",
  ref="DESIGN.md section 0.1, section 5 C17"),
 "C37": dict(
  text="binarySearch, prefixSearch, removeCmd, Cmds.Lookup/Add/Del are verified against requires/ensures/loop-invariant contracts for all inputs (unbounded slices, arbitrary strings): unique prefix / exact name / ambiguity / no match exactly as stated, termination, no out-of-range access, frame conditions; Interp.Cmd is proved to leave nothing to evaluate after an ambiguous prefix and to hand an unknown ':'-prefixed input back for (forced) evaluation",
  note="trusted: string order/prefix axioms, assumed contract of sortCmdList (sort.Slice), errors.New, strings.Join, go/ssa front end, SMT solvers; strings.TrimSpace / Split2 as pure functions; the text of the ambiguity message and the exact text handed back for evaluation are not under contract",
  ref="DESIGN.md section 5 C37"),
}

NOT_BUILT = "contracts for this property are designed in DESIGN.md section 5 but were not written and discharged in the time available; nothing is claimed (not applicable as built, not a statement about the technique)"
NA = {
 "C09": "technique cannot express it: selector resolution, method sets and type switches are decided against go/types' own LookupFieldOrMethod and run-time reflect.Type identity of synthesised types; a contract would have to re-specify Go's selector rules over an abstract type graph, i.e. a model, not the code (DESIGN.md section 5 C09)",
 "C10": "schedules are outside sequential weakest-precondition reasoning; channels/select are outside the verified Go subset; data-race freedom needs a memory-model proof (DESIGN.md section 5 C10)",
 "C11": "behaviour is that of reflect.MakeFunc / reflect-synthesised proxies plus whole-program equivalence with compiled Go; no function-level contract short of specifying package reflect (DESIGN.md section 5 C11)",
 "C16": "value equivalence with compiled Go for arbitrary declaration sets is a whole-program statement whose oracle is Go's initialisation order; the mechanism (the sorter) is property C17 (DESIGN.md section 5 C16)",
 "C18": "configurations x programs: the option bits select whole code paths whose equivalence is the whole-program statement itself; no contract narrower than 'both paths denote the same program' exists (DESIGN.md section 5 C18)",
 "C21": "the trees are built by compiled closures that run interpreted code; the oracle is a substitution model over all Go syntax trees and a cross-check between two interpreters: needs an algebraic datatype of Go syntax and inductive proofs, gives no replayable counterexample (DESIGN.md section 5 C21)",
 "C23": "states equality with an independent implementation (go/scanner) on all inputs; the fork differs structurally from it, so no relational VC can align the two, and a contract would be the Go lexical grammar in full (DESIGN.md section 5 C23-C25)",
 "C24": "states equality with an independent implementation (go/parser) on all inputs; a contract would be the Go syntactic grammar in full (DESIGN.md section 5 C23-C25)",
 "C25": "parse(print(t)) == t over all syntax trees needs both the printer and the parser specified against the grammar; out of reach of function-level contracts (DESIGN.md section 5 C23-C25)",
 "C29": "compares interpreter types with the answers of reflect and go/types (size, alignment, method sets, assignability): the oracle is two large libraries that would have to be specified (DESIGN.md section 5 C29, C30)",
 "C30": "graph-to-graph converter over the whole go/types object model with 'printed form matches' as oracle (DESIGN.md section 5 C29, C30)",
 "C35": "'behaves like textual specialisation' is whole-program; memoisation keys are canonical type pointers whose canonicity is C29 (DESIGN.md section 5 C35)",
 "C03": "not built. The run-time converters of fast/convert.go hand the conversion to reflect.Value.Convert; a contract would state, per target kind, that the closure reads the result through the accessor of that kind and narrows it to the kind - with reflect's Convert assumed to be Go's conversion, which is the substance of the property. The compile-time side (base/untyped Lit.Convert) is arbitrary-precision arithmetic on go/constant values, which the engine's machine-integer / IEEE model does not cover. Nothing is claimed (DESIGN.md section 5 C03)",
 "C04": "not built. Untyped constant arithmetic is go/constant and math/big arithmetic on unbounded integers and rationals: the engine models machine integers and IEEE floats only; the dispatch around it (BinaryExprUntyped) reads package-level token tables whose initial values the engine does not know. Nothing is claimed (DESIGN.md section 5 C04, section 0.7)",
 "C08": "not built. Index, slice, composite-literal and builtin closures work through reflect.Value on containers of interpreted types (reflect.MakeSlice, MapIndex, Append, Copy): contracts would restate package reflect for containers; only the scalar cell model of reflect is specified in the engine. Nothing is claimed (DESIGN.md section 5 C08)",
 "C31": "not built. The import tables are generated init functions with tens of thousands of map entries; 'each name is bound to the symbol of that name' is a syntactic scan of those literals, and the proxies forward through reflect: no function-level contract was written. Nothing is claimed (DESIGN.md section 5 C31)",
 "C32": "not built. Marshal / Unmarshal format and parse text (strconv, big.Rat strings): the engine has no theory of string contents (strings are an ordered uninterpreted sort). Nothing is claimed (DESIGN.md section 5 C32)",
 "C33": "technique cannot decide it: goroutine identity comes from assembly (gls/id_*.s), the registry is shared state under a spin lock, and the property quantifies over interleavings; sequential weakest preconditions have no schedules (DESIGN.md section 5 C33)",
 "C38": "not built. A second interpreter (classic/, about 10 kLoC working entirely through reflect.Value) compared with compiled Go: no contract was written for it. Nothing is claimed (DESIGN.md section 5 C38)",
 "C39": "the oracle is the Go toolchain compiling and running the written file (DESIGN.md section 5 C39)",
}

def main():
    props = [json.loads(l) for l in open('/verif/properties.jsonl')]
    commits = subprocess.run(['git', '-C', '/repo', 'log', '--format=%h %s'], capture_output=True, text=True).stdout.splitlines()
    hooks = [c.split()[0] for c in commits if c.split(' ', 1)[1].startswith('verif:')]
    checks = []
    na = []
    for p in props:
        i = p['id']
        if i in CLAIMS:
            c = CLAIMS[i]
            checks.append({
                "property_id": i,
                "quick_cmd": f"/verif/bin/gowp check {i} --tier quick",
                "thorough_cmd": f"/verif/bin/gowp check {i} --tier thorough",
                "evidence_file": f"/verif/evidence/{i}.json",
                "replay_cmd_template": "/verif/bin/gowp replay {path}",
                "engine": "gowp",
                "level_claimed": {"category": "proof", "text": c['text'], "design_ref": c['ref']},
                "level_note": c['note'],
                "technique": TECH,
            })
        else:
            na.append({"property_id": i, "reason": NA.get(i, NOT_BUILT)})
    m = {
        "version": 1,
        "setup_cmd": "cd /verif/gowp && GOFLAGS=-mod=vendor GOPROXY=off GOSUMDB=off GOTOOLCHAIN=local go build -o /verif/bin/gowp ./cmd/gowp",
        "hooks": {
            "guard": "verif",
            "enable": "-tags verif (adds the contract files <pkg>/zz_verif_*.go: comment-only, except ast2/zz_verif_ast2.go, which also holds the lemma functions of C22 - Go functions that call the real New / Get / Size / ToAst / ToNode and exist only under the tag; nothing in the normal build refers to them)",
            "baseline_off_cmd": "for m in $(cat /w/out/gomods.txt); do MF=$(cd /repo/$m && . /w/out/goenv.sh && gomodflag); (cd /repo/$m && go test $MF -json -vet=off -count=1 -timeout 25m ./...); done",
            "source_commits": hooks,
            "add_only": True,
        },
        "engines": [{"name": "gowp", "path": "/verif/gowp", "serves_properties": sorted(CLAIMS), "kind_free_text": "contract-based deductive verification: VC generation over go/ssa of the working tree, contracts in //@ side-car files, obligations discharged by z3 5.1 / z3 4.8.12 / cvc5 1.0.3"}],
        "checks": checks,
        "not_applicable": na,
        "notes": "see DESIGN.md; known findings in known_findings.txt",
    }
    json.dump(m, open('/verif/MANIFEST.json', 'w'), indent=1)
    print(len(checks), "checks,", len(na), "not applicable")

main()
