#!/bin/bash
# Must-fail self-test: applies every seeded change of /verif/seeded that DESIGN.md records as caught
# and checks that the named property's quick check still reports a violation; applies the ones
# recorded as missed and reports if a check now catches them. Restores /repo after each one.
# usage: tools/selftest.sh [seed-name-prefix]      (takes long: every run is a full quick check)
set -u
cd /verif || exit 2
EXPECT="
C37-1:C37:caught C37-2:C37:caught C37-3:C37:caught C37-4:C37:caught
C01-1:C01:caught C01-2:C01:caught C01-3:C01:caught C01-4:C01:caught
C02-1:C02:missed C02-2:C02:missed C02-3:C02:missed C02-4:C02:caught
C05-1:C05:caught C05-2:C05:caught C05-3:C05:missed C05-4:C05:missed
C06-1:C06:caught C06-2:C06:caught C06-3:C06:missed C06-4:C06:caught
C07-1:C07:missed C07-2:C07:caught
C12-1:C12:caught C12-2:C12:caught C12-3:C12:caught C12-4:C12:caught
C13-1:C13:caught C13-2:C13:caught
C14-1:C14:caught C14-2:C14:caught C14-3:C14:caught C14-4:C14:caught
C15-1:C15:caught C15-2:C15:caught
C17-1:C17:missed C17-2:C17:missed
C19-1:C19:caught C19-2:C19:caught
C20-1:C20:caught C20-2:C20:caught
C22-1:C22:caught C22-2:C22:caught C22-3:C22:caught C22-4:C22:caught
C26-1:C26:caught C26-2:C26:missed C26-3:C26:caught C26-4:C26:caught
C27-1:C27:caught C27-2:C27:caught
C28-1:C28:missed C28-2:C28:caught C28-3:C28:caught C28-4:C28:caught
C34-1:C34:caught C34-2:C34:missed C34-3:C34:missed C34-4:C34:missed
C36-1:C36:missed C36-2:C36:caught
"
ok=0; bad=0
for e in $EXPECT; do
  s=${e%%:*}; r=${e#*:}; p=${r%%:*}; want=${r#*:}
  case "$s" in ${1:-}*) ;; *) continue;; esac
  [ -d seeded/$s ] || { echo "SKIP $s (no such seed)"; continue; }
  out=$(tools/seed_detect.sh $s $p 2>&1 | head -1)
  if echo "$out" | grep -q "exit=1"; then got=caught; else got=missed; fi
  if [ "$got" = "$want" ]; then ok=$((ok+1)); echo "ok    $s $p $got"; else bad=$((bad+1)); echo "DIFF  $s $p expected $want, now $got :: $out"; fi
done
echo "selftest: $ok as recorded, $bad different"
[ $bad = 0 ]
