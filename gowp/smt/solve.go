package smt

import (
	"bytes"
	"context"
	"fmt"
	"os"
	"os/exec"
	"path/filepath"
	"strings"
	"sync"
	"time"
)

// Result of one solver on one query.
type Result struct {
	Status string // unsat | sat | unknown | timeout | error
	Solver string
	Secs   float64
	Raw    string
	Model  map[string]string
}

var solverCmds = map[string][]string{
	"z3-new": {"z3-new", "-smt2"},
	"z3":     {"z3", "-smt2"},
	"cvc5":   {"cvc5", "--lang", "smt2", "--produce-models", "--incremental"},
}

// AllSolvers is the portfolio, in preference order.
var AllSolvers = []string{"z3-new", "cvc5", "z3"}

var scratchOnce sync.Once
var scratchDir string

func scratch() string {
	scratchOnce.Do(func() {
		d, err := os.MkdirTemp("", "gowp-smt-")
		if err != nil {
			panic(err)
		}
		scratchDir = d
	})
	return scratchDir
}

// CleanupScratch removes the query files written by this process.
func CleanupScratch() {
	if scratchDir != "" {
		os.RemoveAll(scratchDir)
	}
}

var qcount int
var qmu sync.Mutex

func runOne(ctx context.Context, solver, script string, timeout time.Duration) Result {
	qmu.Lock()
	qcount++
	n := qcount
	qmu.Unlock()
	text := script
	if solver == "cvc5" {
		text = "(set-logic ALL)\n" + script
	}
	f := filepath.Join(scratch(), fmt.Sprintf("q%d-%s.smt2", n, solver))
	if err := os.WriteFile(f, []byte(text), 0o644); err != nil {
		return Result{Status: "error", Solver: solver, Raw: err.Error()}
	}
	defer os.Remove(f)
	cctx, cancel := context.WithTimeout(ctx, timeout)
	defer cancel()
	args := append([]string{}, solverCmds[solver][1:]...)
	args = append(args, f)
	cmd := exec.CommandContext(cctx, solverCmds[solver][0], args...)
	var out bytes.Buffer
	cmd.Stdout = &out
	cmd.Stderr = &out
	t0 := time.Now()
	_ = cmd.Run()
	secs := time.Since(t0).Seconds()
	raw := out.String()
	first := strings.TrimSpace(strings.SplitN(raw, "\n", 2)[0])
	r := Result{Solver: solver, Secs: secs, Raw: raw}
	switch first {
	case "unsat", "sat", "unknown":
		r.Status = first
	default:
		if cctx.Err() != nil {
			r.Status = "timeout"
		} else {
			r.Status = "error"
		}
	}
	if r.Status == "sat" {
		r.Model = parseValues(raw)
	}
	if len(r.Raw) > 4000 {
		r.Raw = r.Raw[:4000] + "…"
	}
	return r
}

// Race runs the portfolio concurrently; the first definite answer (sat/unsat) wins.
// All results obtained so far are returned as well.
func Race(script string, timeout time.Duration, solvers []string) (Result, []Result) {
	ctx, cancel := context.WithCancel(context.Background())
	defer cancel()
	ch := make(chan Result, len(solvers))
	for i, s := range solvers {
		go func(i int, s string) {
			// the third solver of the portfolio joins only if the first two have not answered
			// quickly: most obligations are decided in well under a second
			if i >= 2 {
				select {
				case <-ctx.Done():
					ch <- Result{Status: "unknown", Solver: s, Raw: "not started"}
					return
				case <-time.After(1500 * time.Millisecond):
				}
			}
			ch <- runOne(ctx, s, script, timeout)
		}(i, s)
	}
	var all []Result
	var best Result
	best.Status = "unknown"
	for range solvers {
		r := <-ch
		all = append(all, r)
		if r.Status == "unsat" || r.Status == "sat" {
			best = r
			cancel()
			break
		}
		if best.Solver == "" || best.Status == "error" {
			best = r
		}
	}
	return best, all
}

// RunAll runs every solver to completion (thorough tier: agreement check).
func RunAll(script string, timeout time.Duration, solvers []string) []Result {
	ch := make(chan Result, len(solvers))
	for _, s := range solvers {
		go func(s string) { ch <- runOne(context.Background(), s, script, timeout) }(s)
	}
	var all []Result
	for range solvers {
		all = append(all, <-ch)
	}
	return all
}

// parseValues reads the "(get-value ...)" answer: ((name value) (name value) ...).
func parseValues(raw string) map[string]string {
	m := map[string]string{}
	i := strings.Index(raw, "((")
	if i < 0 {
		return m
	}
	s := raw[i+1:]
	depth := 0
	start := -1
	for j := 0; j < len(s); j++ {
		switch s[j] {
		case '(':
			if depth == 0 {
				start = j
			}
			depth++
		case ')':
			depth--
			if depth == 0 && start >= 0 {
				item := s[start+1 : j]
				item = strings.TrimSpace(item)
				// name is first token (may be |quoted|)
				var name, val string
				if strings.HasPrefix(item, "|") {
					k := strings.Index(item[1:], "|")
					name = item[1 : k+1]
					val = strings.TrimSpace(item[k+2:])
				} else if sp := strings.IndexAny(item, " \n\t"); sp > 0 {
					name = item[:sp]
					val = strings.TrimSpace(item[sp:])
				}
				if name != "" {
					m[name] = val
				}
				start = -1
			}
			if depth < 0 {
				return m
			}
		}
	}
	return m
}
