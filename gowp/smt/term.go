// Package smt is a small hash-consed term language with an SMT-LIB2 printer and a solver
// portfolio runner.  It is the logical back end of the gowp verification-condition generator.
package smt

import (
	"fmt"
	"math/bits"
	"sort"
	"strconv"
	"strings"
	"sync"
)

type Kind int

const (
	KBool Kind = iota
	KBV
	KFP
	KInt
	KArray
	KUn // uninterpreted sort
	KReal
)

type Sort struct {
	K         Kind
	W         int // bit-vector width
	E, M      int // floating point exponent / significand widths
	Idx, Elem *Sort
	Name      string
	str       string
}

var sortTab = map[string]*Sort{}
var sortMu sync.Mutex

func internSort(s *Sort) *Sort {
	sortMu.Lock()
	defer sortMu.Unlock()
	if o, ok := sortTab[s.str]; ok {
		return o
	}
	sortTab[s.str] = s
	return s
}

var (
	Bool = internSort(&Sort{K: KBool, str: "Bool"})
	Int  = internSort(&Sort{K: KInt, str: "Int"})
	Real = internSort(&Sort{K: KReal, str: "Real"})
	FP32 = internSort(&Sort{K: KFP, E: 8, M: 24, str: "(_ FloatingPoint 8 24)"})
	FP64 = internSort(&Sort{K: KFP, E: 11, M: 53, str: "(_ FloatingPoint 11 53)"})
)

func BV(w int) *Sort {
	return internSort(&Sort{K: KBV, W: w, str: fmt.Sprintf("(_ BitVec %d)", w)})
}
func Array(idx, elem *Sort) *Sort {
	return internSort(&Sort{K: KArray, Idx: idx, Elem: elem, str: "(Array " + idx.str + " " + elem.str + ")"})
}
func Un(name string) *Sort { return internSort(&Sort{K: KUn, Name: name, str: name}) }

func (s *Sort) String() string { return s.str }

// Term is an immutable hash-consed node.
type Term struct {
	Op       string
	Name     string
	Val      uint64
	Args     []*Term
	S        *Sort
	ID       int
	Bound    []*Term // quantifier-bound variables (Op == forall / exists)
	HasBound bool    // mentions a bound variable
}

type Builder struct {
	tab   map[string]*Term
	n     int
	fresh int
	// side definitions: fresh variable name -> defining constraint (e.g. IEEE bit patterns)
	Defs map[string]*Term
	// declared uninterpreted functions: name -> signature
	UFs map[string]*UFSig
	// axioms keyed by the UF name that triggers them
	Axioms map[string][]*Term
}

type UFSig struct {
	Name string
	Args []*Sort
	Res  *Sort
}

func NewBuilder() *Builder {
	return &Builder{tab: map[string]*Term{}, Defs: map[string]*Term{}, UFs: map[string]*UFSig{}, Axioms: map[string][]*Term{}}
}

func (b *Builder) mk(op, name string, val uint64, s *Sort, args ...*Term) *Term {
	var sb strings.Builder
	sb.WriteString(op)
	sb.WriteByte('|')
	sb.WriteString(name)
	sb.WriteByte('|')
	sb.WriteString(strconv.FormatUint(val, 16))
	sb.WriteByte('|')
	sb.WriteString(s.str)
	hb := op == "bound"
	for _, a := range args {
		sb.WriteByte(',')
		sb.WriteString(strconv.Itoa(a.ID))
		if a.HasBound {
			hb = true
		}
	}
	k := sb.String()
	if t, ok := b.tab[k]; ok {
		return t
	}
	b.n++
	t := &Term{Op: op, Name: name, Val: val, Args: args, S: s, ID: b.n, HasBound: hb}
	b.tab[k] = t
	return t
}

// ---------- leaves

func (b *Builder) Var(name string, s *Sort) *Term { return b.mk("var", name, 0, s) }
func (b *Builder) Fresh(prefix string, s *Sort) *Term {
	b.fresh++
	return b.Var(fmt.Sprintf("%s!%d", prefix, b.fresh), s)
}
func (b *Builder) BoundVar(name string, s *Sort) *Term { return b.mk("bound", name, 0, s) }
func (b *Builder) True() *Term                         { return b.mk("true", "", 0, Bool) }
func (b *Builder) False() *Term                        { return b.mk("false", "", 0, Bool) }
func (b *Builder) BoolC(v bool) *Term {
	if v {
		return b.True()
	}
	return b.False()
}
func mask(w int) uint64 {
	if w >= 64 {
		return ^uint64(0)
	}
	return (uint64(1) << uint(w)) - 1
}
func (b *Builder) BVC(v uint64, w int) *Term { return b.mk("bv", "", v&mask(w), BV(w)) }
func (b *Builder) IntC(v int64) *Term        { return b.mk("int", "", uint64(v), Int) }

// FPC builds a floating point constant from its IEEE bit pattern.
func (b *Builder) FPC(bitsv uint64, s *Sort) *Term {
	return b.mk("fpc", "", bitsv&mask(s.E+s.M), s)
}

func (t *Term) IsTrue() bool  { return t.Op == "true" }
func (t *Term) IsFalse() bool { return t.Op == "false" }
func (t *Term) IsConst() bool {
	return t.Op == "bv" || t.Op == "int" || t.Op == "true" || t.Op == "false" || t.Op == "fpc" || t.Op == "real"
}
func (t *Term) SignedVal() int64 {
	if t.Op == "int" {
		return int64(t.Val)
	}
	w := t.S.W
	if w < 64 && t.Val&(1<<uint(w-1)) != 0 {
		return int64(t.Val | ^mask(w))
	}
	return int64(t.Val)
}

// ---------- boolean

func (b *Builder) Not(x *Term) *Term {
	switch x.Op {
	case "true":
		return b.False()
	case "false":
		return b.True()
	case "not":
		return x.Args[0]
	}
	return b.mk("not", "", 0, Bool, x)
}

func (b *Builder) nary(op string, unit, zero *Term, xs []*Term) *Term {
	var out []*Term
	seen := map[int]bool{}
	var add func(x *Term) bool
	add = func(x *Term) bool {
		if x == unit {
			return true
		}
		if x == zero {
			return false
		}
		if x.Op == op {
			for _, a := range x.Args {
				if !add(a) {
					return false
				}
			}
			return true
		}
		if seen[x.ID] {
			return true
		}
		seen[x.ID] = true
		out = append(out, x)
		return true
	}
	for _, x := range xs {
		if !add(x) {
			return zero
		}
	}
	for _, x := range out {
		if x.Op == "not" && seen[x.Args[0].ID] {
			return zero
		}
	}
	switch len(out) {
	case 0:
		return unit
	case 1:
		return out[0]
	}
	return b.mk(op, "", 0, Bool, out...)
}
func (b *Builder) And(xs ...*Term) *Term { return b.nary("and", b.True(), b.False(), xs) }
func (b *Builder) Or(xs ...*Term) *Term  { return b.nary("or", b.False(), b.True(), xs) }
func (b *Builder) Implies(x, y *Term) *Term {
	if x.IsTrue() {
		return y
	}
	if x.IsFalse() || y.IsTrue() {
		return b.True()
	}
	if y.IsFalse() {
		return b.Not(x)
	}
	if x == y {
		return b.True()
	}
	return b.mk("=>", "", 0, Bool, x, y)
}
func (b *Builder) Iff(x, y *Term) *Term { return b.Eq(x, y) }

func (b *Builder) Ite(c, x, y *Term) *Term {
	if c.IsTrue() {
		return x
	}
	if c.IsFalse() {
		return y
	}
	if x == y {
		return x
	}
	if x.S != y.S {
		panic(fmt.Sprintf("ite sort mismatch %s vs %s", x.S, y.S))
	}
	if x.S == Bool {
		if x.IsTrue() && y.IsFalse() {
			return c
		}
		if x.IsFalse() && y.IsTrue() {
			return b.Not(c)
		}
		if x.IsTrue() {
			return b.Or(c, y)
		}
		if x.IsFalse() {
			return b.And(b.Not(c), y)
		}
		if y.IsTrue() {
			return b.Or(b.Not(c), x)
		}
		if y.IsFalse() {
			return b.And(c, x)
		}
	}
	if c.Op == "not" {
		return b.Ite(c.Args[0], y, x)
	}
	// ite(c, a, ite(c, _, b)) = ite(c,a,b)
	if y.Op == "ite" && y.Args[0] == c {
		return b.Ite(c, x, y.Args[2])
	}
	if x.Op == "ite" && x.Args[0] == c {
		return b.Ite(c, x.Args[1], y)
	}
	return b.mk("ite", "", 0, x.S, c, x, y)
}

func (b *Builder) Eq(x, y *Term) *Term {
	if x == y {
		return b.True()
	}
	if x.S != y.S {
		panic(fmt.Sprintf("eq sort mismatch %s vs %s (%s = %s)", x.S, y.S, x, y))
	}
	if x.IsConst() && y.IsConst() && x.Op == y.Op && x.Op != "fpc" {
		return b.False()
	}
	if x.S == Bool {
		if x.IsTrue() {
			return y
		}
		if y.IsTrue() {
			return x
		}
		if x.IsFalse() {
			return b.Not(y)
		}
		if y.IsFalse() {
			return b.Not(x)
		}
	}
	if x.ID > y.ID {
		x, y = y, x
	}
	return b.mk("=", "", 0, Bool, x, y)
}
func (b *Builder) Neq(x, y *Term) *Term { return b.Not(b.Eq(x, y)) }

func (b *Builder) Distinct(xs ...*Term) *Term {
	if len(xs) < 2 {
		return b.True()
	}
	return b.mk("distinct", "", 0, Bool, xs...)
}

// ---------- quantifiers

func (b *Builder) Forall(vars []*Term, body *Term) *Term {
	if body.IsTrue() || body.IsFalse() || len(vars) == 0 {
		return body
	}
	t := b.mk("forall", varsKey(vars), 0, Bool, body)
	t.Bound = vars
	t.HasBound = stillBound(body, vars)
	return t
}
func (b *Builder) Exists(vars []*Term, body *Term) *Term {
	if body.IsTrue() || body.IsFalse() || len(vars) == 0 {
		return body
	}
	t := b.mk("exists", varsKey(vars), 0, Bool, body)
	t.Bound = vars
	t.HasBound = stillBound(body, vars)
	return t
}
func varsKey(vars []*Term) string {
	var s []string
	for _, v := range vars {
		s = append(s, v.Name+":"+v.S.str)
	}
	return strings.Join(s, ";")
}

// stillBound reports whether body mentions bound variables other than vars.
func stillBound(body *Term, vars []*Term) bool {
	mine := map[int]bool{}
	for _, v := range vars {
		mine[v.ID] = true
	}
	seen := map[int]bool{}
	var walk func(t *Term) bool
	walk = func(t *Term) bool {
		if !t.HasBound || seen[t.ID] {
			return false
		}
		seen[t.ID] = true
		if t.Op == "bound" {
			return !mine[t.ID]
		}
		if t.Op == "forall" || t.Op == "exists" {
			// inner quantifier: its own HasBound already excludes its variables
			for _, v := range t.Bound {
				mine[v.ID] = true
			}
		}
		for _, a := range t.Args {
			if walk(a) {
				return true
			}
		}
		return false
	}
	return walk(body)
}

// ---------- integers (mathematical; used for references and ghost counters)

func (b *Builder) IntOp(op string, xs ...*Term) *Term {
	allc := true
	for _, x := range xs {
		if x.Op != "int" {
			allc = false
		}
	}
	if allc && len(xs) == 2 {
		x, y := int64(xs[0].Val), int64(xs[1].Val)
		switch op {
		case "+":
			return b.IntC(x + y)
		case "-":
			return b.IntC(x - y)
		case "*":
			return b.IntC(x * y)
		case "<":
			return b.BoolC(x < y)
		case "<=":
			return b.BoolC(x <= y)
		case ">":
			return b.BoolC(x > y)
		case ">=":
			return b.BoolC(x >= y)
		}
	}
	s := xs[0].S
	switch op {
	case ">":
		return b.IntOp("<", xs[1], xs[0])
	case ">=":
		return b.IntOp("<=", xs[1], xs[0])
	case "<", "<=":
		s = Bool
		if xs[0] == xs[1] {
			return b.BoolC(op == "<=")
		}
	}
	return b.mk(op, "", 0, s, xs...)
}

// RealC is a small rational constant num/den of sort Real.
func (b *Builder) RealC(num, den int64) *Term {
	return b.mk("real", fmt.Sprintf("%d/%d", num, den), 0, Real)
}

// ---------- bit-vectors

func (b *Builder) BVBin(op string, x, y *Term) *Term {
	if x.S != y.S {
		panic(fmt.Sprintf("%s sort mismatch %s vs %s", op, x.S, y.S))
	}
	w := x.S.W
	if x.Op == "bv" && y.Op == "bv" {
		a, c := x.Val, y.Val
		sa, sc := x.SignedVal(), y.SignedVal()
		switch op {
		case "bvadd":
			return b.BVC(a+c, w)
		case "bvsub":
			return b.BVC(a-c, w)
		case "bvmul":
			return b.BVC(a*c, w)
		case "bvand":
			return b.BVC(a&c, w)
		case "bvor":
			return b.BVC(a|c, w)
		case "bvxor":
			return b.BVC(a^c, w)
		case "bvshl":
			if c >= uint64(w) {
				return b.BVC(0, w)
			}
			return b.BVC(a<<c, w)
		case "bvlshr":
			if c >= uint64(w) {
				return b.BVC(0, w)
			}
			return b.BVC(a>>c, w)
		case "bvashr":
			if c >= uint64(w) {
				c = uint64(w - 1)
			}
			return b.BVC(uint64(sa>>c), w)
		case "bvudiv":
			if c != 0 {
				return b.BVC(a/c, w)
			}
		case "bvurem":
			if c != 0 {
				return b.BVC(a%c, w)
			}
		case "bvsdiv":
			if c != 0 && !(sc == -1) {
				return b.BVC(uint64(sa/sc), w)
			}
		case "bvsrem":
			if c != 0 && !(sc == -1) {
				return b.BVC(uint64(sa%sc), w)
			}
		}
	}
	switch op {
	case "bvadd":
		if x.Op == "bv" && x.Val == 0 {
			return y
		}
		if y.Op == "bv" && y.Val == 0 {
			return x
		}
		// normalise constant to the right; (x + c1) + c2 = x + (c1+c2)
		if x.Op == "bv" {
			x, y = y, x
		}
		if y.Op == "bv" && x.Op == "bvadd" && x.Args[1].Op == "bv" {
			return b.BVBin("bvadd", x.Args[0], b.BVC(x.Args[1].Val+y.Val, w))
		}
		if y.Op != "bv" && x.ID > y.ID {
			x, y = y, x
		}
	case "bvsub":
		if y.Op == "bv" {
			return b.BVBin("bvadd", x, b.BVC(-y.Val, w))
		}
		if x == y {
			return b.BVC(0, w)
		}
	case "bvmul":
		if x.Op == "bv" {
			x, y = y, x
		}
		if y.Op == "bv" && y.Val == 1 {
			return x
		}
		if y.Op != "bv" && x.ID > y.ID {
			x, y = y, x
		}
	case "bvand", "bvor", "bvxor":
		if x.Op == "bv" {
			x, y = y, x
		}
		if y.Op != "bv" && x.ID > y.ID {
			x, y = y, x
		}
	}
	return b.mk(op, "", 0, x.S, x, y)
}
// IndexAdd builds base+idx for array indexing without re-associating or re-ordering, so that
// quantified facts about a[base+k] and ground terms a[base+e] keep the same shape (E-matching is
// syntactic).
func (b *Builder) IndexAdd(base, idx *Term) *Term {
	if base.Op == "bv" && base.Val == 0 {
		return idx
	}
	if base.Op == "bv" && idx.Op == "bv" {
		return b.BVC(base.Val+idx.Val, base.S.W)
	}
	return b.mk("bvadd", "", 0, base.S, base, idx)
}

func (b *Builder) BVNot(x *Term) *Term {
	if x.Op == "bv" {
		return b.BVC(^x.Val, x.S.W)
	}
	return b.mk("bvnot", "", 0, x.S, x)
}
func (b *Builder) BVNeg(x *Term) *Term {
	if x.Op == "bv" {
		return b.BVC(-x.Val, x.S.W)
	}
	return b.mk("bvneg", "", 0, x.S, x)
}
func (b *Builder) BVCmp(op string, x, y *Term) *Term {
	if x.S != y.S {
		panic(fmt.Sprintf("%s sort mismatch %s vs %s", op, x.S, y.S))
	}
	if x.Op == "bv" && y.Op == "bv" {
		switch op {
		case "bvult":
			return b.BoolC(x.Val < y.Val)
		case "bvule":
			return b.BoolC(x.Val <= y.Val)
		case "bvugt":
			return b.BoolC(x.Val > y.Val)
		case "bvuge":
			return b.BoolC(x.Val >= y.Val)
		case "bvslt":
			return b.BoolC(x.SignedVal() < y.SignedVal())
		case "bvsle":
			return b.BoolC(x.SignedVal() <= y.SignedVal())
		case "bvsgt":
			return b.BoolC(x.SignedVal() > y.SignedVal())
		case "bvsge":
			return b.BoolC(x.SignedVal() >= y.SignedVal())
		}
	}
	if x == y {
		switch op {
		case "bvule", "bvuge", "bvsle", "bvsge":
			return b.True()
		default:
			return b.False()
		}
	}
	// canonical forms: only bvult/bvule/bvslt/bvsle
	switch op {
	case "bvugt":
		return b.BVCmp("bvult", y, x)
	case "bvuge":
		return b.BVCmp("bvule", y, x)
	case "bvsgt":
		return b.BVCmp("bvslt", y, x)
	case "bvsge":
		return b.BVCmp("bvsle", y, x)
	}
	return b.mk(op, "", 0, Bool, x, y)
}
func (b *Builder) Extract(hi, lo int, x *Term) *Term {
	if lo == 0 && hi == x.S.W-1 {
		return x
	}
	if x.Op == "bv" {
		return b.BVC(x.Val>>uint(lo), hi-lo+1)
	}
	if x.Op == "extract" {
		l0 := int(x.Val & 0xffff)
		return b.Extract(hi+l0, lo+l0, x.Args[0])
	}
	if (x.Op == "zero_extend" || x.Op == "sign_extend") && hi < x.Args[0].S.W {
		return b.Extract(hi, lo, x.Args[0])
	}
	if x.Op == "concat" && hi < x.Args[1].S.W {
		return b.Extract(hi, lo, x.Args[1])
	}
	if x.Op == "concat" && lo >= x.Args[1].S.W {
		k := x.Args[1].S.W
		return b.Extract(hi-k, lo-k, x.Args[0])
	}
	return b.mk("extract", "", uint64(hi)<<16|uint64(lo), BV(hi-lo+1), x)
}
func (b *Builder) ZeroExt(n int, x *Term) *Term {
	if n == 0 {
		return x
	}
	if x.Op == "bv" {
		return b.BVC(x.Val, x.S.W+n)
	}
	return b.mk("zero_extend", "", uint64(n), BV(x.S.W+n), x)
}
func (b *Builder) SignExt(n int, x *Term) *Term {
	if n == 0 {
		return x
	}
	if x.Op == "bv" {
		return b.BVC(uint64(x.SignedVal()), x.S.W+n)
	}
	return b.mk("sign_extend", "", uint64(n), BV(x.S.W+n), x)
}
func (b *Builder) Concat(hi, lo *Term) *Term {
	w := hi.S.W + lo.S.W
	if hi.Op == "bv" && lo.Op == "bv" && w <= 64 {
		return b.BVC(hi.Val<<uint(lo.S.W)|lo.Val, w)
	}
	// concat(extract(h, k, x), extract(k-1, l, x)) = extract(h, l, x)
	if hi.Op == "extract" && lo.Op == "extract" && hi.Args[0] == lo.Args[0] {
		hh, hl := int(hi.Val>>16), int(hi.Val&0xffff)
		lh, ll := int(lo.Val>>16), int(lo.Val&0xffff)
		if hl == lh+1 {
			return b.Extract(hh, ll, hi.Args[0])
		}
	}
	return b.mk("concat", "", 0, BV(w), hi, lo)
}

// ---------- floating point

func (b *Builder) FPBin(op string, x, y *Term) *Term {
	return b.mk(op, "RNE", 0, x.S, x, y)
}
func (b *Builder) FPNeg(x *Term) *Term { return b.mk("fp.neg", "", 0, x.S, x) }
func (b *Builder) FPCmp(op string, x, y *Term) *Term {
	return b.mk(op, "", 0, Bool, x, y)
}
func (b *Builder) FPIsNaN(x *Term) *Term { return b.mk("fp.isNaN", "", 0, Bool, x) }

// FPPred: a unary IEEE classification predicate (fp.isZero, fp.isNegative, fp.isInfinite ...).
func (b *Builder) FPPred(op string, x *Term) *Term { return b.mk(op, "", 0, Bool, x) }

// FPFromBits reinterprets an IEEE bit pattern.
func (b *Builder) FPFromBits(x *Term, s *Sort) *Term {
	if x.Op == "var" {
		if d, ok := b.Defs[x.Name]; ok && d.Op == "=" {
			// bits!k was introduced as the pattern of some float: to_fp(bits!k) is that float
			for i := 0; i < 2; i++ {
				if d.Args[i].Op == "to_fp_bits" && d.Args[i].Args[0] == x && d.Args[i].S == s {
					return d.Args[1-i]
				}
			}
		}
	}
	if x.Op == "bv" {
		return b.FPC(x.Val, s)
	}
	if x.Op == "uf" && strings.HasPrefix(x.Name, "fp2bits_") && x.Args[0].S == s {
		return x.Args[0]
	}
	return b.mk("to_fp_bits", "", 0, s, x)
}

// FPToBits gives some IEEE bit pattern of x (NaN payload unspecified).
func (b *Builder) FPToBits(x *Term) *Term {
	w := x.S.E + x.S.M
	if x.Op == "to_fp_bits" {
		// bits of a reinterpretation: the same bits unless NaN; NaN payloads are identified (see DESIGN 3.2)
		return x.Args[0]
	}
	if x.Op == "fpc" {
		return b.BVC(x.Val, w)
	}
	// The bit pattern is a function of the value (NaN payloads are identified: one canonical NaN
	// pattern), so equal floats have equal patterns: fp2bits is uninterpreted with
	// to_fp(fp2bits(f)) == f.
	name := fmt.Sprintf("fp2bits_%d", x.S.M)
	if _, ok := b.UFs[name]; !ok {
		f := b.BoundVar("fpf", x.S)
		app := b.UF(name, BV(w), f)
		b.AddAxiom(name, b.Forall([]*Term{f}, b.Eq(b.mk("to_fp_bits", "", 0, x.S, app), f)))
	}
	return b.UF(name, BV(w), x)
}

// FPConv converts between float formats (RNE).
func (b *Builder) FPConv(x *Term, s *Sort) *Term {
	if x.S == s {
		return x
	}
	// narrowing back an exact widening: float32(float64(v)) == v for every binary32 v (NaNs identified)
	if x.Op == "to_fp_fp" && x.Args[0].S == s && x.S.M > s.M {
		return x.Args[0]
	}
	return b.mk("to_fp_fp", "RNE", 0, s, x)
}

// FPFromInt: signed/unsigned bit-vector to float (RNE).
func (b *Builder) FPFromInt(x *Term, signed bool, s *Sort) *Term {
	if signed {
		return b.mk("to_fp_sbv", "RNE", 0, s, x)
	}
	return b.mk("to_fp_ubv", "RNE", 0, s, x)
}

// ---------- arrays

func (b *Builder) Select(a, i *Term) *Term {
	if a.S.K != KArray {
		panic("select on non-array " + a.S.str)
	}
	if a.S.Idx != i.S {
		panic(fmt.Sprintf("select index sort %s on %s", i.S, a.S))
	}
	for a.Op == "store" {
		j := a.Args[1]
		if j == i {
			return a.Args[2]
		}
		if j.IsConst() && i.IsConst() {
			a = a.Args[0]
			continue
		}
		// i = x + c1, j = x + c2 with c1 != c2
		if distinctOffsets(i, j) {
			a = a.Args[0]
			continue
		}
		break
	}
	if a.Op == "constarr" {
		return a.Args[0]
	}
	if a.Op == "ite" {
		// push selects through small ite-arrays to keep terms first-order friendly
		return b.Ite(a.Args[0], b.Select(a.Args[1], i), b.Select(a.Args[2], i))
	}
	return b.mk("select", "", 0, a.S.Elem, a, i)
}

func distinctOffsets(i, j *Term) bool {
	bi, ci := splitOffset(i)
	bj, cj := splitOffset(j)
	return bi == bj && ci != cj && bi != nil
}
func splitOffset(t *Term) (*Term, uint64) {
	if t.Op == "bvadd" && t.Args[1].Op == "bv" {
		return t.Args[0], t.Args[1].Val
	}
	if t.Op == "bv" || t.Op == "int" {
		return nil, t.Val
	}
	return t, 0
}

func (b *Builder) Store(a, i, v *Term) *Term {
	if a.S.K != KArray || a.S.Idx != i.S || a.S.Elem != v.S {
		panic(fmt.Sprintf("store sort mismatch: %s [%s] := %s", a.S, i.S, v.S))
	}
	if a.Op == "store" && a.Args[1] == i {
		a = a.Args[0]
	}
	if v.Op == "select" && v.Args[0] == a && v.Args[1] == i {
		return a
	}
	return b.mk("store", "", 0, a.S, a, i, v)
}
func (b *Builder) ConstArray(s *Sort, v *Term) *Term {
	return b.mk("constarr", "", 0, s, v)
}

// ---------- uninterpreted functions

func (b *Builder) UF(name string, res *Sort, args ...*Term) *Term {
	if sig, ok := b.UFs[name]; !ok {
		sig = &UFSig{Name: name, Res: res}
		for _, a := range args {
			sig.Args = append(sig.Args, a.S)
		}
		b.UFs[name] = sig
	} else {
		if len(sig.Args) != len(args) || sig.Res != res {
			panic("UF " + name + " used with different signatures")
		}
		for i, a := range args {
			if sig.Args[i] != a.S {
				panic(fmt.Sprintf("UF %s arg %d: %s vs %s", name, i, sig.Args[i], a.S))
			}
		}
	}
	return b.mk("uf", name, 0, res, args...)
}

// AddAxiom registers a closed formula that is added to every query mentioning UF name.
func (b *Builder) AddAxiom(ufname string, ax *Term) {
	for _, o := range b.Axioms[ufname] {
		if o == ax {
			return
		}
	}
	b.Axioms[ufname] = append(b.Axioms[ufname], ax)
}

// ---------- substitution

func (b *Builder) Subst(t *Term, m map[*Term]*Term) *Term {
	memo := map[*Term]*Term{}
	var rec func(t *Term) *Term
	rec = func(t *Term) *Term {
		if r, ok := m[t]; ok {
			return r
		}
		if len(t.Args) == 0 {
			return t
		}
		if r, ok := memo[t]; ok {
			return r
		}
		args := make([]*Term, len(t.Args))
		ch := false
		for i, a := range t.Args {
			args[i] = rec(a)
			if args[i] != a {
				ch = true
			}
		}
		r := t
		if ch {
			r = b.Rebuild(t, args)
		}
		memo[t] = r
		return r
	}
	return rec(t)
}

// Rebuild re-applies t's operator to new arguments (through the simplifying constructors).
func (b *Builder) Rebuild(t *Term, a []*Term) *Term {
	switch t.Op {
	case "not":
		return b.Not(a[0])
	case "and":
		return b.And(a...)
	case "or":
		return b.Or(a...)
	case "=>":
		return b.Implies(a[0], a[1])
	case "ite":
		return b.Ite(a[0], a[1], a[2])
	case "=":
		return b.Eq(a[0], a[1])
	case "select":
		return b.Select(a[0], a[1])
	case "store":
		return b.Store(a[0], a[1], a[2])
	case "bvadd", "bvsub", "bvmul", "bvand", "bvor", "bvxor", "bvshl", "bvlshr", "bvashr", "bvudiv", "bvurem", "bvsdiv", "bvsrem":
		return b.BVBin(t.Op, a[0], a[1])
	case "bvult", "bvule", "bvslt", "bvsle":
		return b.BVCmp(t.Op, a[0], a[1])
	case "bvnot":
		return b.BVNot(a[0])
	case "bvneg":
		return b.BVNeg(a[0])
	case "extract":
		return b.Extract(int(t.Val>>16), int(t.Val&0xffff), a[0])
	case "zero_extend":
		return b.ZeroExt(int(t.Val), a[0])
	case "sign_extend":
		return b.SignExt(int(t.Val), a[0])
	case "concat":
		return b.Concat(a[0], a[1])
	case "forall":
		return b.Forall(t.Bound, a[0])
	case "exists":
		return b.Exists(t.Bound, a[0])
	case "+", "-", "*", "<", "<=", ">", ">=":
		return b.IntOp(t.Op, a...)
	}
	return b.mk(t.Op, t.Name, t.Val, t.S, a...)
}

// ---------- printing

func (t *Term) String() string {
	p := &printer{names: map[int]string{}}
	return p.str(t)
}

type printer struct {
	names map[int]string // shared closed subterms already defined
}

func smtName(s string) string {
	ok := true
	for _, c := range s {
		if !(c >= 'a' && c <= 'z' || c >= 'A' && c <= 'Z' || c >= '0' && c <= '9' || strings.ContainsRune("_.!$%&*+-/<=>?@^~", c)) {
			ok = false
		}
	}
	if ok && s != "" {
		return s
	}
	return "|" + strings.NewReplacer("|", "!", "\\", "!").Replace(s) + "|"
}

func (p *printer) str(t *Term) string {
	if n, ok := p.names[t.ID]; ok {
		return n
	}
	switch t.Op {
	case "var", "bound":
		return smtName(t.Name)
	case "true", "false":
		return t.Op
	case "bv":
		return fmt.Sprintf("(_ bv%d %d)", t.Val, t.S.W)
	case "int":
		v := int64(t.Val)
		if v < 0 {
			return fmt.Sprintf("(- %d)", -v)
		}
		return strconv.FormatInt(v, 10)
	case "real":
		var n, d int64
		fmt.Sscanf(t.Name, "%d/%d", &n, &d)
		if d == 1 {
			return fmt.Sprintf("%d.0", n)
		}
		return fmt.Sprintf("(/ %d.0 %d.0)", n, d)
	case "fpc":
		e, m := t.S.E, t.S.M
		sign := (t.Val >> uint(e+m-1)) & 1
		exp := (t.Val >> uint(m-1)) & mask(e)
		man := t.Val & mask(m-1)
		return fmt.Sprintf("(fp (_ bv%d 1) (_ bv%d %d) (_ bv%d %d))", sign, exp, e, man, m-1)
	case "extract":
		return fmt.Sprintf("((_ extract %d %d) %s)", t.Val>>16, t.Val&0xffff, p.str(t.Args[0]))
	case "zero_extend", "sign_extend":
		return fmt.Sprintf("((_ %s %d) %s)", t.Op, t.Val, p.str(t.Args[0]))
	case "to_fp_bits":
		return fmt.Sprintf("((_ to_fp %d %d) %s)", t.S.E, t.S.M, p.str(t.Args[0]))
	case "to_fp_fp", "to_fp_sbv":
		return fmt.Sprintf("((_ to_fp %d %d) RNE %s)", t.S.E, t.S.M, p.str(t.Args[0]))
	case "to_fp_ubv":
		return fmt.Sprintf("((_ to_fp_unsigned %d %d) RNE %s)", t.S.E, t.S.M, p.str(t.Args[0]))
	case "fp.to_sbv", "fp.to_ubv":
		return fmt.Sprintf("((_ %s %d) RTZ %s)", t.Op, t.S.W, p.str(t.Args[0]))
	case "constarr":
		return fmt.Sprintf("((as const %s) %s)", t.S, p.str(t.Args[0]))
	case "uf":
		if len(t.Args) == 0 {
			return smtName(t.Name)
		}
		var sb strings.Builder
		sb.WriteString("(" + smtName(t.Name))
		for _, a := range t.Args {
			sb.WriteByte(' ')
			sb.WriteString(p.str(a))
		}
		sb.WriteByte(')')
		return sb.String()
	case "forall", "exists":
		var sb strings.Builder
		sb.WriteString("(" + t.Op + " (")
		for _, v := range t.Bound {
			sb.WriteString("(" + smtName(v.Name) + " " + v.S.str + ")")
		}
		sb.WriteString(") " + p.str(t.Args[0]) + ")")
		return sb.String()
	}
	var sb strings.Builder
	sb.WriteByte('(')
	sb.WriteString(t.Op)
	if t.Name == "RNE" {
		sb.WriteString(" RNE")
	}
	for _, a := range t.Args {
		sb.WriteByte(' ')
		sb.WriteString(p.str(a))
	}
	sb.WriteByte(')')
	return sb.String()
}

// Script renders a satisfiability query for the conjunction of asserts.
// Shared closed sub-terms are hoisted into define-fun so that the text stays linear in the DAG.
func (b *Builder) Script(asserts []*Term, getValues []*Term) string {
	// close over side definitions and axioms
	all := append([]*Term{}, asserts...)
	seenDef := map[string]bool{}
	seenAx := map[*Term]bool{}
	reach := map[int]*Term{}
	var order []*Term
	var visit func(t *Term)
	var pending []*Term
	visit = func(t *Term) {
		if _, ok := reach[t.ID]; ok {
			return
		}
		reach[t.ID] = t
		for _, a := range t.Args {
			visit(a)
		}
		order = append(order, t)
		if t.Op == "var" {
			if d, ok := b.Defs[t.Name]; ok && !seenDef[t.Name] {
				seenDef[t.Name] = true
				pending = append(pending, d)
			}
		}
		if t.Op == "uf" {
			for _, ax := range b.Axioms[t.Name] {
				if !seenAx[ax] {
					seenAx[ax] = true
					pending = append(pending, ax)
				}
			}
		}
	}
	for _, a := range all {
		visit(a)
	}
	for len(pending) > 0 {
		d := pending[0]
		pending = pending[1:]
		all = append(all, d)
		visit(d)
	}
	for _, g := range getValues {
		visit(g)
	}
	// reference counts
	refs := map[int]int{}
	for _, t := range order {
		for _, a := range t.Args {
			refs[a.ID]++
		}
	}
	var sb strings.Builder
	// declarations
	sorts := map[string]bool{}
	var declSort func(s *Sort)
	declSort = func(s *Sort) {
		switch s.K {
		case KUn:
			if !sorts[s.Name] {
				sorts[s.Name] = true
				sb.WriteString("(declare-sort " + s.Name + " 0)\n")
			}
		case KArray:
			declSort(s.Idx)
			declSort(s.Elem)
		}
	}
	var vars, ufs []*Term
	seenUF := map[string]bool{}
	for _, t := range order {
		switch t.Op {
		case "var":
			vars = append(vars, t)
		case "uf":
			if !seenUF[t.Name] {
				seenUF[t.Name] = true
				ufs = append(ufs, t)
			}
		case "bound":
			declSort(t.S)
		}
	}
	sort.Slice(vars, func(i, j int) bool { return vars[i].Name < vars[j].Name })
	sort.Slice(ufs, func(i, j int) bool { return ufs[i].Name < ufs[j].Name })
	for _, v := range vars {
		declSort(v.S)
	}
	for _, u := range ufs {
		sig := b.UFs[u.Name]
		for _, a := range sig.Args {
			declSort(a)
		}
		declSort(sig.Res)
	}
	for _, v := range vars {
		sb.WriteString("(declare-const " + smtName(v.Name) + " " + v.S.str + ")\n")
	}
	for _, u := range ufs {
		sig := b.UFs[u.Name]
		var as []string
		for _, a := range sig.Args {
			as = append(as, a.str)
		}
		sb.WriteString("(declare-fun " + smtName(u.Name) + " (" + strings.Join(as, " ") + ") " + sig.Res.str + ")\n")
	}
	p := &printer{names: map[int]string{}}
	for _, t := range order {
		if t.Op == "constarr" && !t.Args[0].IsConst() && !t.HasBound {
			// cvc5 accepts (as const ...) only over values: use a named array with a defining axiom
			n := fmt.Sprintf("$carr%d", t.ID)
			sb.WriteString("(declare-const " + n + " " + t.S.str + ")\n")
			sb.WriteString("(assert (forall (($ci " + t.S.Idx.str + ")) (= (select " + n + " $ci) " + p.str(t.Args[0]) + ")))\n")
			p.names[t.ID] = n
			continue
		}
		if refs[t.ID] >= 2 && len(t.Args) > 0 && !t.HasBound {
			body := p.str(t)
			if len(body) < 24 {
				continue
			}
			n := fmt.Sprintf("$t%d", t.ID)
			sb.WriteString("(define-fun " + n + " () " + t.S.str + " " + body + ")\n")
			p.names[t.ID] = n
		}
	}
	for _, a := range all {
		sb.WriteString("(assert " + p.str(a) + ")\n")
	}
	sb.WriteString("(check-sat)\n")
	if len(getValues) > 0 {
		sb.WriteString("(get-value (")
		for _, g := range getValues {
			sb.WriteString(p.str(g) + " ")
		}
		sb.WriteString("))\n")
	}
	return sb.String()
}

// LeafVars returns the free scalar variables of the given terms (for model extraction).
func LeafVars(ts []*Term) []*Term {
	seen := map[int]bool{}
	var out []*Term
	var walk func(t *Term)
	walk = func(t *Term) {
		if seen[t.ID] {
			return
		}
		seen[t.ID] = true
		if t.Op == "var" && (t.S.K == KBV || t.S.K == KBool || t.S.K == KInt || t.S.K == KFP) {
			out = append(out, t)
		}
		for _, a := range t.Args {
			walk(a)
		}
	}
	for _, t := range ts {
		walk(t)
	}
	sort.Slice(out, func(i, j int) bool { return out[i].Name < out[j].Name })
	return out
}

// Size counts DAG nodes.
func Size(ts ...*Term) int {
	seen := map[int]bool{}
	var walk func(t *Term)
	walk = func(t *Term) {
		if seen[t.ID] {
			return
		}
		seen[t.ID] = true
		for _, a := range t.Args {
			walk(a)
		}
	}
	for _, t := range ts {
		walk(t)
	}
	return len(seen)
}

var _ = bits.Len64
