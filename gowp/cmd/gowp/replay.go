package main

import (
	"encoding/json"
	"fmt"
	"os"
	"os/exec"
	"path/filepath"
	"strings"
	"time"

	"gowp/load"
	"gowp/sym"
)

// runOverlayTest injects an in-package test file into /repo/<pkg> through go test -overlay
// (nothing is written into the repository) and runs it.
func runOverlayTest(pkg, fileName, source, run string) (bool, string) {
	repo := load.RepoDir()
	tmp, err := os.MkdirTemp("", "gowp-replay-")
	if err != nil {
		return false, err.Error()
	}
	defer os.RemoveAll(tmp)
	src := filepath.Join(tmp, fileName)
	if err := os.WriteFile(src, []byte(source), 0o644); err != nil {
		return false, err.Error()
	}
	ov := map[string]map[string]string{"Replace": {filepath.Join(repo, pkg, fileName): src}}
	data, _ := json.Marshal(ov)
	ovf := filepath.Join(tmp, "overlay.json")
	os.WriteFile(ovf, data, 0o644)
	cmd := exec.Command("go", "test", "-overlay", ovf, "-vet=off", "-count=1", "-timeout", "120s", "-run", run, "./"+pkg)
	cmd.Dir = repo
	cmd.Env = append(os.Environ(), "GOFLAGS=-mod=mod", "GOPROXY=off", "GOSUMDB=off", "GOTOOLCHAIN=local")
	done := make(chan struct{})
	var out []byte
	go func() { out, err = cmd.CombinedOutput(); close(done) }()
	select {
	case <-done:
	case <-time.After(300 * time.Second):
		cmd.Process.Kill()
		return false, "replay timed out"
	}
	s := string(out)
	if len(s) > 6000 {
		s = s[:6000] + "…"
	}
	return err == nil, s
}

// replayer builds a test that tries to exhibit a violation of the function's contract on the real code.
type replayer struct {
	pkg    string
	test   string
	kind   string
	source func(model map[string]string, ob string) string
}

var replayers = map[string]*replayer{}

func (c *checkCtx) tryReplay(fr *funcResult, o *sym.Outcome) *replayRun {
	if fr == nil {
		return nil
	}
	key := fr.Name
	if o != nil {
		if r, ok := replayers[o.Ob.Func+"|"+o.Ob.Kind]; ok {
			return runReplayer(r, o)
		}
	}
	r, ok := replayers[c.prop.ID+"|"+key]
	if !ok {
		r, ok = replayers[key]
	}
	if !ok {
		r, ok = replayers[c.prop.ID+"|*"]
	}
	if !ok {
		return &replayRun{Kind: "none", Verdict: "not-run", Output: "no replay template for " + key}
	}
	return runReplayer(r, o)
}

func runReplayer(r *replayer, o *sym.Outcome) *replayRun {
	var model map[string]string
	ob := ""
	if o != nil {
		model = o.Model
		ob = o.Ob.Name
	}
	src := r.source(model, ob)
	rr := &replayRun{Kind: r.kind, Pkg: r.pkg, Test: r.test, Source: src}
	ok, out := runOverlayTest(r.pkg, "zz_gowp_replay_test.go", src, r.test)
	rr.Output = out
	if !ok && strings.Contains(out, "GOWP-REPLAY-FAIL") {
		rr.Verdict = "reproduced"
		for _, l := range strings.Split(out, "\n") {
			if i := strings.Index(l, "GOWP-REPLAY-FAIL"); i >= 0 {
				rr.Input = strings.TrimSpace(l[i+len("GOWP-REPLAY-FAIL"):])
				break
			}
		}
	} else if ok {
		rr.Verdict = "not-reproduced"
	} else {
		rr.Verdict = "not-run"
	}
	return rr
}

// cmdReplay re-runs a replay file: the injected test if there is one, and the saved solver query.
func cmdReplay(args []string) int {
	if len(args) < 1 {
		usage()
	}
	data, err := os.ReadFile(args[0])
	if err != nil {
		fmt.Fprintln(os.Stderr, err)
		return 2
	}
	var rf replayFile
	if err := json.Unmarshal(data, &rf); err != nil {
		fmt.Fprintln(os.Stderr, err)
		return 2
	}
	fmt.Printf("property %s, obligation %s\n  clause: %s\n  where: %s\n  status when recorded: %s\n", rf.Property, rf.Obligation, rf.Clause, rf.Where, rf.Status)
	rc := 0
	if rf.ScriptFile != "" {
		for _, s := range []string{"z3-new", "z3", "cvc5"} {
			args := map[string][]string{"z3-new": {"-smt2", "-T:30"}, "z3": {"-smt2", "-T:30"}, "cvc5": {"--lang", "smt2", "--tlimit=30000", "--produce-models"}}[s]
			script := rf.ScriptFile
			if s == "cvc5" {
				b, _ := os.ReadFile(script)
				tmp, _ := os.CreateTemp("", "gowp-*.smt2")
				tmp.WriteString("(set-logic ALL)\n" + string(b))
				tmp.Close()
				defer os.Remove(tmp.Name())
				script = tmp.Name()
			}
			out, _ := exec.Command(s, append(args, script)...).CombinedOutput()
			first := strings.SplitN(strings.TrimSpace(string(out)), "\n", 2)[0]
			fmt.Printf("  recorded query, %s: %s\n", s, first)
		}
	}
	// the verdict comes from the current working tree: regenerate the obligation and solve it again
	if st := reverify(rf.Obligation); st != "" {
		fmt.Printf("  obligation regenerated from the working tree: %s\n", st)
		if st != "discharged" {
			rc = 1
		}
	}
	if rf.Replay != nil && rf.Replay.Source != "" {
		ok, out := runOverlayTest(rf.Replay.Pkg, "zz_gowp_replay_test.go", rf.Replay.Source, rf.Replay.Test)
		fmt.Printf("  replay test %s in %s: pass=%v\n%s\n", rf.Replay.Test, rf.Replay.Pkg, ok, out)
		if !ok {
			rc = 1
		}
	}
	if rc == 1 {
		fmt.Printf("VIOLATION property=%s replay=%s\n", rf.Property, args[0])
	}
	return rc
}

// reverify regenerates the named obligation from the current working tree and solves it.
func reverify(ob string) string {
	k := strings.Index(ob, "::")
	if k < 0 {
		return ""
	}
	fn := ob[:k]
	if b := strings.Index(fn, "{"); b >= 0 {
		fn = fn[:b]
	}
	slash := strings.LastIndex(fn, "/")
	dot := strings.Index(fn[slash+1:], ".")
	if dot < 0 {
		return ""
	}
	rel, name := fn[:slash+1+dot], fn[slash+1+dot+1:]
	p, err := load.Load("./" + rel)
	if err != nil {
		return "engine fault: " + err.Error()
	}
	setTransparent(p, rel)
	x := sym.NewExec(p.Prog, p.Specs)
	var rep *sym.FuncReport
	path := load.ModulePath + "/" + rel
	switch {
	case strings.HasPrefix(name, "lemma:"), strings.HasPrefix(name, "writers:"):
		db := p.Specs[path]
		if db == nil || db.Funcs[name] == nil {
			return "contract not found"
		}
		if strings.HasPrefix(name, "writers:") {
			rep = x.VerifyWriters(p.Pkgs[path], db.Funcs[name])
		} else {
			rep = x.VerifyLemma(p.Pkgs[path], db.Funcs[name])
		}
	default:
		f := p.Func(rel, name)
		if f == nil {
			return "function not found in the working tree"
		}
		rep = x.Verify(f)
	}
	if rep.Error != "" {
		return "not analysable: " + rep.Error
	}
	for _, o := range rep.Obligations {
		if o.Name == ob {
			out := sym.SolveAll([]*sym.Prepared{x.Prepare(o)}, 30*time.Second, false, 1)
			return out[0].Status
		}
	}
	return "no obligation of this name is generated any more"
}
