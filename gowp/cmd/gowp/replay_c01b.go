package main

import "strings"

// Replay for the shortcut (alias) returns of C01: x op c and c op x with the constants 0, 1, -1,
// for float and complex operands at IEEE special values and for integer operands at their
// boundaries, compared bit for bit with the operator compiled natively.

const replayC01Alias = `package fast

import (
	"fmt"
	"math"
	"testing"
)

func gowpEval01b(ir *Interp, src string) (res interface{}, err interface{}) {
	defer func() {
		if r := recover(); r != nil {
			err = r
		}
	}()
	vals, _ := ir.Eval(src)
	if len(vals) > 0 && vals[0].IsValid() {
		res = vals[0].Interface()
	}
	return
}

func gowpBits(v interface{}) string {
	switch v := v.(type) {
	case float64:
		return fmt.Sprintf("f64:%016x", math.Float64bits(v))
	case float32:
		return fmt.Sprintf("f32:%08x", math.Float32bits(v))
	case complex128:
		return fmt.Sprintf("c128:%016x,%016x", math.Float64bits(real(v)), math.Float64bits(imag(v)))
	case complex64:
		return fmt.Sprintf("c64:%08x,%08x", math.Float32bits(real(v)), math.Float32bits(imag(v)))
	}
	return fmt.Sprintf("%T:%v", v, v)
}

func TestGowpReplayC01Alias(t *testing.T) {
	ir := New()
	gowpEval01b(ir, "import \"math\"")
	ir.Eval("var x float64; var y float32; var z complex128; var gu_uint64 uint64; var gu_uint uint; var gu_uintptr uintptr; var gn int64")
	px := ir.ValueOf("x").ReflectValue().Addr().Interface().(*float64)
	py := ir.ValueOf("y").ReflectValue().Addr().Interface().(*float32)
	fstr := func(v float64) string {
		switch {
		case v == 0 && math.Signbit(v):
			return "math.Copysign(0, -1)"
		case math.IsInf(v, 1):
			return "math.Inf(1)"
		case math.IsInf(v, -1):
			return "math.Inf(-1)"
		}
		return fmt.Sprintf("float64(%v)", v)
	}
	nz := math.Copysign(0, -1)
	inf := math.Inf(1)
	f64 := []float64{0, nz, 1, -1, 2.5, inf, -inf, math.MaxFloat64}
	type tc struct {
		expr string
		f    func(x float64) float64
	}
	for _, c := range []tc{
		{"x + 0", func(x float64) float64 { return x + 0 }}, {"0 + x", func(x float64) float64 { return 0 + x }},
		{"x - 0", func(x float64) float64 { return x - 0 }}, {"x * 1", func(x float64) float64 { return x * 1 }},
		{"1 * x", func(x float64) float64 { return 1 * x }}, {"x * -1", func(x float64) float64 { return x * -1 }},
		{"x * 0", func(x float64) float64 { return x * 0 }}, {"0 * x", func(x float64) float64 { return 0 * x }},
		{"x / 1", func(x float64) float64 { return x / 1 }}, {"x / -1", func(x float64) float64 { return x / -1 }},
		{"x * 2", func(x float64) float64 { return x * 2 }}, {"x / 2", func(x float64) float64 { return x / 2 }},
		{"x / 0", func(x float64) float64 { var z float64; return x / z }},
	} {
		for _, x := range f64 {
			*px = x
			res, err := gowpEval01b(ir, c.expr)
			want := c.f(x)
			if err != nil || gowpBits(res) != gowpBits(want) {
				t.Fatalf("GOWP-REPLAY-FAIL float64 x = %v (bits %s): %s gives %v (%s, error %v), compiled Go gives %v (%s)", x, gowpBits(x), c.expr, res, gowpBits(res), err, want, gowpBits(want))
			}
			*py = float32(x)
			e32 := ""
			for _, ch := range c.expr {
				if ch == 'x' {
					e32 += "y"
				} else {
					e32 += string(ch)
				}
			}
			res, err = gowpEval01b(ir, e32)
			var want32 float32
			{
				y := float32(x)
				switch c.expr {
				case "x + 0":
					want32 = y + 0
				case "0 + x":
					want32 = 0 + y
				case "x - 0":
					want32 = y - 0
				case "x * 1":
					want32 = y * 1
				case "1 * x":
					want32 = 1 * y
				case "x * -1":
					want32 = y * -1
				case "x * 0":
					want32 = y * 0
				case "0 * x":
					want32 = 0 * y
				case "x / 1":
					want32 = y / 1
				case "x / -1":
					want32 = y / -1
				case "x * 2":
					want32 = y * 2
				case "x / 2":
					want32 = y / 2
				case "x / 0":
					var z32 float32
					want32 = y / z32
				}
			}
			if err != nil || gowpBits(res) != gowpBits(want32) {
				t.Fatalf("GOWP-REPLAY-FAIL float32 y = %v: %s gives %v (%s, error %v), compiled Go gives %v (%s)", float32(x), e32, res, gowpBits(res), err, want32, gowpBits(want32))
			}
		}
	}
	// unsigned 64-bit: "all bits set" is not -1
	for _, k := range []string{"uint64", "uint", "uintptr"} {
		for _, c := range []struct {
			expr string
			f    func(u uint64) uint64
		}{
			{"u / 18446744073709551615", func(u uint64) uint64 { return u / 18446744073709551615 }},
			{"u * 18446744073709551615", func(u uint64) uint64 { return u * 18446744073709551615 }},
			{"u % 18446744073709551615", func(u uint64) uint64 { return u % 18446744073709551615 }},
			{"u / 8", func(u uint64) uint64 { return u / 8 }}, {"u % 8", func(u uint64) uint64 { return u % 8 }}, {"u * 8", func(u uint64) uint64 { return u * 8 }},
			{"u / 9223372036854775808", func(u uint64) uint64 { return u / 9223372036854775808 }},
		} {
			for _, u := range []uint64{0, 1, 7, 8, 9, 1 << 63, ^uint64(0), ^uint64(0) - 1} {
				gowpEval01b(ir, fmt.Sprintf("gu_%s = %d", k, u))
				res, err := gowpEval01b(ir, "gu_"+k+c.expr[1:])
				if err != nil || fmt.Sprint(res) != fmt.Sprint(c.f(u)) {
					t.Fatalf("GOWP-REPLAY-FAIL %s u = %d: %s gives %v (error %v), compiled Go gives %d", k, u, c.expr, res, err, c.f(u))
				}
			}
		}
	}
	// signed: powers of two with negative operands
	for _, c := range []struct {
		expr string
		f    func(n int64) int64
	}{
		{"n / 8", func(n int64) int64 { return n / 8 }}, {"n % 8", func(n int64) int64 { return n % 8 }}, {"n * 8", func(n int64) int64 { return n * 8 }},
		{"n / -8", func(n int64) int64 { return n / -8 }}, {"n % -8", func(n int64) int64 { return n % -8 }}, {"n * -8", func(n int64) int64 { return n * -8 }},
		{"n / -1", func(n int64) int64 { return n / -1 }}, {"n * -1", func(n int64) int64 { return n * -1 }}, {"n % 1", func(n int64) int64 { return n % 1 }},
		{"n / 4611686018427387904", func(n int64) int64 { return n / 4611686018427387904 }}, {"n % 4611686018427387904", func(n int64) int64 { return n % 4611686018427387904 }},
	} {
		for _, n := range []int64{0, 1, -1, 7, -7, 8, -8, 9, -9, math.MaxInt64, math.MinInt64, math.MinInt64 + 1} {
			gowpEval01b(ir, fmt.Sprintf("gn = %d", n))
			res, err := gowpEval01b(ir, "gn"+c.expr[1:])
			if err != nil || fmt.Sprint(res) != fmt.Sprint(c.f(n)) {
				t.Fatalf("GOWP-REPLAY-FAIL int64 n = %d: %s gives %v (error %v), compiled Go gives %d", n, c.expr, res, err, c.f(n))
			}
		}
	}
	// narrower signed kinds, through int64 arithmetic truncated natively
	for _, k := range []struct {
		name string
		bits uint
	}{{"int8", 8}, {"int16", 16}, {"int32", 32}, {"int", 64}} {
		gowpEval01b(ir, "var gk_"+k.name+" "+k.name)
		trunc := func(v int64) int64 { return v << (64 - k.bits) >> (64 - k.bits) }
		for _, d := range []int64{2, 4, 8, 64, -2, -8, -64} {
			for _, n0 := range []int64{0, 1, -1, 7, -7, 9, -9, 63, -63, 64, -64, 100, -100, 127, -128} {
				n := trunc(n0)
				gowpEval01b(ir, fmt.Sprintf("gk_%s = %d", k.name, n))
				for _, op := range []string{"/", "%", "*"} {
					var want int64
					switch op {
					case "/":
						want = trunc(n / d)
					case "%":
						want = trunc(n % d)
					case "*":
						want = trunc(n * d)
					}
					res, err := gowpEval01b(ir, fmt.Sprintf("gk_%s %s %d", k.name, op, d))
					if err != nil || fmt.Sprint(res) != fmt.Sprint(want) {
						t.Fatalf("GOWP-REPLAY-FAIL %s n = %d: n %s %d gives %v (error %v), compiled Go gives %d", k.name, n, op, d, res, err, want)
					}
				}
			}
		}
	}
	// complex128
	cvals := []complex128{complex(0, 0), complex(nz, 0), complex(0, nz), complex(nz, nz), complex(1, inf), complex(inf, 1), complex(2, -3)}
	for _, c := range []struct {
		expr string
		f    func(z complex128) complex128
	}{
		{"z + 0", func(z complex128) complex128 { return z + 0 }}, {"0 + z", func(z complex128) complex128 { return 0 + z }},
		{"z - 0", func(z complex128) complex128 { return z - 0 }}, {"z * 1", func(z complex128) complex128 { return z * 1 }},
		{"z * -1", func(z complex128) complex128 { return z * -1 }}, {"z * 0", func(z complex128) complex128 { return z * 0 }},
		{"z / 1", func(z complex128) complex128 { return z / 1 }},
	} {
		for _, z := range cvals {
			if _, err := gowpEval01b(ir, "z = complex("+fstr(real(z))+", "+fstr(imag(z))+")"); err != nil {
				t.Fatalf("setup: %v", err)
			}
			res, err := gowpEval01b(ir, c.expr)
			want := c.f(z)
			if err != nil || gowpBits(res) != gowpBits(want) {
				t.Fatalf("GOWP-REPLAY-FAIL complex128 z = %v: %s gives %v (%s, error %v), compiled Go gives %v (%s)", z, c.expr, res, gowpBits(res), err, want, gowpBits(want))
			}
		}
	}
}
`

func init() {
	r := &replayer{pkg: "fast", test: "TestGowpReplayC01Alias", kind: "search", source: func(map[string]string, string) string { return replayC01Alias }}
	for _, f := range []string{"Add", "Sub", "Mul", "Quo", "Rem", "And", "Or", "Xor", "Andnot", "mulPow2", "quoPow2", "remPow2"} {
		for _, kind := range []string{"alias", "delegated", "delegated-requires", "closure", "before@(*Stringer).Errorf"} {
			if kind == "closure" && !strings.HasSuffix(f, "Pow2") {
				continue
			}
			replayers["fast.(*Comp)."+f+"|"+kind] = r
		}
	}
}
