package main

// Replay for the shortcut (alias) returns of C01: x op c and c op x with the constants 0, 1, -1,
// for float and complex operands at IEEE special values and for integer operands at their
// boundaries, compared bit for bit with the operator compiled natively.

const replayC01Alias = `package fast

import (
	"fmt"
	"math"
	"testing"
)

func gowpEval01b(ir *Interp, src string) (res interface{}, err interface{}) {
	defer func() {
		if r := recover(); r != nil {
			err = r
		}
	}()
	vals, _ := ir.Eval(src)
	if len(vals) > 0 && vals[0].IsValid() {
		res = vals[0].Interface()
	}
	return
}

func gowpBits(v interface{}) string {
	switch v := v.(type) {
	case float64:
		return fmt.Sprintf("f64:%016x", math.Float64bits(v))
	case float32:
		return fmt.Sprintf("f32:%08x", math.Float32bits(v))
	case complex128:
		return fmt.Sprintf("c128:%016x,%016x", math.Float64bits(real(v)), math.Float64bits(imag(v)))
	case complex64:
		return fmt.Sprintf("c64:%08x,%08x", math.Float32bits(real(v)), math.Float32bits(imag(v)))
	}
	return fmt.Sprintf("%T:%v", v, v)
}

func TestGowpReplayC01Alias(t *testing.T) {
	ir := New()
	gowpEval01b(ir, "import \"math\"")
	nz := math.Copysign(0, -1)
	inf := math.Inf(1)
	f64 := []float64{0, nz, 1, -1, 2.5, inf, -inf, math.MaxFloat64}
	type tc struct {
		expr string
		f    func(x float64) float64
	}
	for _, c := range []tc{
		{"x + 0", func(x float64) float64 { return x + 0 }}, {"0 + x", func(x float64) float64 { return 0 + x }},
		{"x - 0", func(x float64) float64 { return x - 0 }}, {"x * 1", func(x float64) float64 { return x * 1 }},
		{"1 * x", func(x float64) float64 { return 1 * x }}, {"x * -1", func(x float64) float64 { return x * -1 }},
		{"x * 0", func(x float64) float64 { return x * 0 }}, {"0 * x", func(x float64) float64 { return 0 * x }},
		{"x / 1", func(x float64) float64 { return x / 1 }}, {"x / -1", func(x float64) float64 { return x / -1 }},
		{"x * 2", func(x float64) float64 { return x * 2 }}, {"x / 2", func(x float64) float64 { return x / 2 }},
	} {
		for _, x := range f64 {
			ir.Eval("var x float64")
			*(ir.ValueOf("x").ReflectValue().Addr().Interface().(*float64)) = x
			res, err := gowpEval01b(ir, c.expr)
			want := c.f(x)
			if err != nil || gowpBits(res) != gowpBits(want) {
				t.Fatalf("GOWP-REPLAY-FAIL float64 x = %v (bits %s): %s gives %v (%s, error %v), compiled Go gives %v (%s)", x, gowpBits(x), c.expr, res, gowpBits(res), err, want, gowpBits(want))
			}
			ir.Eval("var y float32")
			*(ir.ValueOf("y").ReflectValue().Addr().Interface().(*float32)) = float32(x)
			e32 := ""
			for _, ch := range c.expr {
				if ch == 'x' {
					e32 += "y"
				} else {
					e32 += string(ch)
				}
			}
			res, err = gowpEval01b(ir, e32)
			var want32 float32
			{
				y := float32(x)
				switch c.expr {
				case "x + 0":
					want32 = y + 0
				case "0 + x":
					want32 = 0 + y
				case "x - 0":
					want32 = y - 0
				case "x * 1":
					want32 = y * 1
				case "1 * x":
					want32 = 1 * y
				case "x * -1":
					want32 = y * -1
				case "x * 0":
					want32 = y * 0
				case "0 * x":
					want32 = 0 * y
				case "x / 1":
					want32 = y / 1
				case "x / -1":
					want32 = y / -1
				case "x * 2":
					want32 = y * 2
				case "x / 2":
					want32 = y / 2
				}
			}
			if err != nil || gowpBits(res) != gowpBits(want32) {
				t.Fatalf("GOWP-REPLAY-FAIL float32 y = %v: %s gives %v (%s, error %v), compiled Go gives %v (%s)", float32(x), e32, res, gowpBits(res), err, want32, gowpBits(want32))
			}
		}
	}
	// complex128
	cvals := []complex128{complex(0, 0), complex(nz, 0), complex(0, nz), complex(nz, nz), complex(1, inf), complex(inf, 1), complex(2, -3)}
	for _, c := range []struct {
		expr string
		f    func(z complex128) complex128
	}{
		{"z + 0", func(z complex128) complex128 { return z + 0 }}, {"0 + z", func(z complex128) complex128 { return 0 + z }},
		{"z - 0", func(z complex128) complex128 { return z - 0 }}, {"z * 1", func(z complex128) complex128 { return z * 1 }},
		{"z * -1", func(z complex128) complex128 { return z * -1 }}, {"z * 0", func(z complex128) complex128 { return z * 0 }},
		{"z / 1", func(z complex128) complex128 { return z / 1 }},
	} {
		for _, z := range cvals {
			ir.Eval("var z complex128")
			*(ir.ValueOf("z").ReflectValue().Addr().Interface().(*complex128)) = z
			res, err := gowpEval01b(ir, c.expr)
			want := c.f(z)
			if err != nil || gowpBits(res) != gowpBits(want) {
				t.Fatalf("GOWP-REPLAY-FAIL complex128 z = %v: %s gives %v (%s, error %v), compiled Go gives %v (%s)", z, c.expr, res, gowpBits(res), err, want, gowpBits(want))
			}
		}
	}
}
`

func init() {
	r := &replayer{pkg: "fast", test: "TestGowpReplayC01Alias", kind: "search", source: func(map[string]string, string) string { return replayC01Alias }}
	for _, f := range []string{"Add", "Sub", "Mul", "Quo", "Rem", "And", "Or", "Xor", "Andnot", "mulPow2", "quoPow2", "remPow2"} {
		replayers["fast.(*Comp)."+f+"|alias"] = r
	}
}
