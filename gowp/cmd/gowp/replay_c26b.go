package main

// Replay for lastIsKeywordIgnoresNl (C26): every keyword of the scanner (Go's and gomacro's) and a
// few identifiers, at the end of a line with and without trailing white space and with the
// first/last window given or not; the answer must be "continue on the next line" exactly for the
// keywords other than break, continue, fallthrough, return.

const replayC26Keyword = `package base

import (
	"go/token"
	"testing"

	"github.com/cosmos72/gomacro/go/etoken"
)

func TestGowpReplayC26Keyword(t *testing.T) {
	words := []string{"macro", "function", "x", "foo", "selectx", "gofunc", "interfaces", "i", "fallthroughs"}
	for tok := token.BREAK; tok <= token.VAR; tok++ {
		words = append(words, tok.String())
	}
	for _, w := range words {
		tok := etoken.Lookup(w)
		want := true
		switch tok {
		case token.IDENT, token.BREAK, token.CONTINUE, token.FALLTHROUGH, token.RETURN:
			want = false
		}
		for _, pre := range []string{"", "x = ", "\t", "a.b("} {
			for _, post := range []string{"", " ", " \t\r"} {
				line := []byte(pre + w + post)
				for _, win := range [][2]int{{-1, -1}, {0, len(line) - 1}, {0, len(pre) + len(w) - 1}, {len(pre), -1}} {
					if got := lastIsKeywordIgnoresNl(line, win[0], win[1]); got != want {
						t.Fatalf("GOWP-REPLAY-FAIL lastIsKeywordIgnoresNl(%q, %d, %d) = %v; the line ends in %q (token %v), want %v", line, win[0], win[1], got, w, tok, want)
					}
				}
			}
		}
	}
}
`

func init() {
	replayers["base.lastIsKeywordIgnoresNl"] = &replayer{pkg: "base", test: "TestGowpReplayC26Keyword", kind: "search", source: func(map[string]string, string) string { return replayC26Keyword }}
}
