package main

// Replay for sortUnique (C36) and the string-list utilities of base/dep (C17): exhaustive search
// over all lists of length <= 5 over a 3-letter alphabet (plus a few longer ones), each result
// compared with a specification computed independently in the test.

const replayC36 = `package fast

import (
	"sort"
	"testing"
)

func gowpAllLists(alpha []string, maxlen int, f func([]string)) {
	var rec func(cur []string)
	rec = func(cur []string) {
		f(append([]string(nil), cur...))
		if len(cur) == maxlen {
			return
		}
		for _, a := range alpha {
			rec(append(cur, a))
		}
	}
	rec(nil)
}

func TestGowpReplayC36(t *testing.T) {
	gowpAllLists([]string{"a", "ab", "b"}, 5, func(in []string) {
		orig := append([]string(nil), in...)
		set := map[string]bool{}
		for _, s := range orig {
			set[s] = true
		}
		want := []string{}
		for s := range set {
			want = append(want, s)
		}
		sort.Strings(want)
		got := sortUnique(in)
		for i := 1; i < len(got); i++ {
			if !(got[i-1] < got[i]) {
				t.Fatalf("GOWP-REPLAY-FAIL sortUnique(%q) = %q: not strictly increasing at index %d", orig, got, i)
			}
		}
		for _, s := range got {
			if !set[s] {
				t.Fatalf("GOWP-REPLAY-FAIL sortUnique(%q) = %q: %q is not in the input", orig, got, s)
			}
		}
		if len(got) != len(want) {
			t.Fatalf("GOWP-REPLAY-FAIL sortUnique(%q) = %q, want %q", orig, got, want)
		}
	})
}
`

const replayC17 = `package dep

import (
	"sort"
	"testing"
)

func gowpAllLists(alpha []string, maxlen int, f func([]string)) {
	var rec func(cur []string)
	rec = func(cur []string) {
		f(append([]string(nil), cur...))
		if len(cur) == maxlen {
			return
		}
		for _, a := range alpha {
			rec(append(cur, a))
		}
	}
	rec(nil)
}

func TestGowpReplayC17(t *testing.T) {
	alpha := []string{"a", "ab", "b"}
	gowpAllLists(alpha, 5, func(in []string) {
		orig := append([]string(nil), in...)
		// dup
		d := dup(in)
		if len(d) != len(orig) {
			t.Fatalf("GOWP-REPLAY-FAIL dup(%q) = %q", orig, d)
		}
		for i := range d {
			if d[i] != orig[i] {
				t.Fatalf("GOWP-REPLAY-FAIL dup(%q) = %q", orig, d)
			}
		}
		if len(d) > 0 {
			d[0] = "zz"
			if in[0] == "zz" {
				t.Fatalf("GOWP-REPLAY-FAIL dup(%q) shares the array of its argument", orig)
			}
		}
		// remove_item_inplace
		for _, x := range append([]string{"zz"}, alpha...) {
			l := append([]string(nil), orig...)
			want := []string{}
			for _, s := range orig {
				if s != x {
					want = append(want, s)
				}
			}
			got := remove_item_inplace(x, l)
			ok := len(got) == len(want)
			for i := 0; ok && i < len(got); i++ {
				ok = got[i] == want[i]
			}
			if !ok {
				t.Fatalf("GOWP-REPLAY-FAIL remove_item_inplace(%q, %q) = %q, want %q", x, orig, got, want)
			}
		}
		// sort_unique_inplace
		set := map[string]bool{}
		for _, s := range orig {
			set[s] = true
		}
		want := []string{}
		for s := range set {
			want = append(want, s)
		}
		sort.Strings(want)
		got := sort_unique_inplace(append([]string(nil), orig...))
		ok := len(got) == len(want)
		for i := 0; ok && i < len(got); i++ {
			ok = got[i] == want[i]
		}
		if !ok {
			t.Fatalf("GOWP-REPLAY-FAIL sort_unique_inplace(%q) = %q, want %q", orig, got, want)
		}
	})
}
`

func init() {
	replayers["fast.sortUnique"] = &replayer{pkg: "fast", test: "TestGowpReplayC36", kind: "search", source: func(map[string]string, string) string { return replayC36 }}
	r := &replayer{pkg: "base/dep", test: "TestGowpReplayC17", kind: "search", source: func(map[string]string, string) string { return replayC17 }}
	for _, f := range []string{"remove_item_inplace", "dup", "sort_unique_inplace"} {
		replayers["base/dep."+f] = r
	}
}
