package main

// Replay for C12: evaluations aborted by a panic at several kinds of points (interpreted code, a
// compiled callee, a deferred call, while another panic is being handled, deep in a call chain),
// each followed by a comparison of the goroutine state with the one before, and by a battery of
// evaluations whose results depend on the defer/recover bookkeeping.

const replayC12 = `package fast

import (
	"fmt"
	"testing"

	"github.com/cosmos72/gomacro/base"
)

func gowpEval12(ir *Interp, src string) (res interface{}, err interface{}) {
	defer func() {
		if r := recover(); r != nil {
			err = r
		}
	}()
	vals, _ := ir.Eval(src)
	if len(vals) > 0 && vals[0].IsValid() {
		res = vals[0].Interface()
	}
	return
}

func TestGowpReplayC12(t *testing.T) {
	aborts := []string{
		"func f1() { panic(\"a\") }; f1()",
		"func f2() { defer func() { panic(\"in defer\") }(); panic(\"first\") }; f2()",
		"func f3() { defer func() { recover(); panic(\"again\") }(); panic(\"x\") }; f3()",
		"func f4() { var m map[string]int; m[\"a\"] = 1 }; f4()",
		"func f5() { defer func() { defer func() { panic(\"inner2\") }(); panic(\"inner1\") }(); panic(\"outer\") }; f5()",
		"func f6(n int) { var x int; defer func() { x++ }(); if n == 0 { panic(\"deep\") }; f6(n-1) }; f6(5)",
		"func f7() { defer func() { var p *int; *p = 1 }(); }; f7()",
		"func f8() { for i := 0; i < 3; i++ { defer func() { if i == 3 { panic(\"loop defer\") } }() } }; f8()",
		"var a9 []int; a9[3]",
	}
	battery := []struct{ src, want string }{
		{"func g1() (r interface{}) { r = recover(); return }; g1()", "<nil>"},
		{"func g2() (s string) { defer func() { s = fmt.Sprint(recover()) }(); panic(\"p\") }; g2()", "p"},
		{"func g3() (s string) { defer func() { func() { s = fmt.Sprint(recover()) }() }(); defer func() { recover() }(); panic(\"q\") }; g3()", "<nil>"},
		{"func g4(n int) int { if n == 0 { return 0 }; return n + g4(n-1) }; g4(10)", "55"},
	}
	for _, ab := range aborts {
		ir := New()
		if _, err := gowpEval12(ir, "import \"fmt\""); err != nil {
			t.Fatalf("setup: %v", err)
		}
		gowpEval12(ir, "1+1")
		run := ir.env.Run
		ef, cur, dof, dd, sig := run.ExecFlags, run.CurrEnv, run.DeferOfFun, run.DebugDepth, run.Signals
		if _, err := gowpEval12(ir, ab); err == nil {
			t.Fatalf("setup: evaluation %q was expected to be aborted by a panic", ab)
		}
		if run != ir.env.Run {
			t.Fatalf("GOWP-REPLAY-FAIL after aborted evaluation %q: a different Run", ab)
		}
		if run.ExecFlags != ef || run.CurrEnv != cur || run.DeferOfFun != dof || run.DebugDepth != dd {
			t.Fatalf("GOWP-REPLAY-FAIL after aborted evaluation %q: ExecFlags %v -> %v, CurrEnv %p -> %p, DeferOfFun %p -> %p, DebugDepth %v -> %v",
				ab, ef, run.ExecFlags, cur, run.CurrEnv, dof, run.DeferOfFun, dd, run.DebugDepth)
		}
		_ = sig
		for _, b := range battery {
			res, err := gowpEval12(ir, b.src)
			if err != nil || fmt.Sprint(res) != b.want {
				t.Fatalf("GOWP-REPLAY-FAIL after aborted evaluation %q: %s = %v (panic %v), want %s", ab, b.src, res, err, b.want)
			}
		}
	}
	// a pending asynchronous signal left behind by an aborted evaluation must not hit the next one
	ir := New()
	gowpEval12(ir, "1+1")
	ir.env.Run.Signals.Async = base.SigInterrupt
	if res, err := gowpEval12(ir, "func h(n int) int { s := 0; for i := 0; i < n; i++ { s += i }; return s }; h(1000)"); err != nil || fmt.Sprint(res) != "499500" {
		t.Fatalf("GOWP-REPLAY-FAIL stale Signals.Async = SigInterrupt at the start of an evaluation: h(1000) = %v (panic %v), want 499500", res, err)
	}
}
`

func init() {
	r := &replayer{pkg: "fast", test: "TestGowpReplayC12", kind: "search", source: func(map[string]string, string) string { return replayC12 }}
	for _, f := range []string{"fast.restore", "fast.pushDefer", "fast.popDefer", "fast.reExecWithFlags", "fast.reExecWithFlags$1", "fast.exec$1", "fast.execWithFlags$1",
		"fast.(*Run).applyDebugOp", "fast.(*Run).applyAsyncSignal", "fast.(*Interp).RunExpr", "fast.(*Interp).DebugExpr",
		"fast.writers:Run.ExecFlags", "fast.writers:Run.CurrEnv", "fast.writers:Run.DeferOfFun", "fast.writers:Run.Interrupt"} {
		replayers[f] = r
	}
	replayers["C12|fast.(*Interp).prepareEnv"] = r
}
