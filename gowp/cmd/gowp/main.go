// Command gowp: verification-condition generator for cosmos72/gomacro (see /verif/DESIGN.md).
package main

import (
	"flag"
	"fmt"
	"os"
	"runtime"
	"strings"
	"time"

	"gowp/load"
	"gowp/smt"
	"gowp/sym"
)

func usage() {
	fmt.Fprintln(os.Stderr, `usage:
  gowp verify [-t secs] [-v] [-dump dir] <pkg> <func>...   generate and discharge the obligations of functions (debugging aid)
  gowp check <property-id> [--tier quick|thorough]          decide one property (writes evidence/<id>.json)
  gowp replay <file>                                        re-run a replay file
  gowp selftest [ids...]                                    run the must-fail corpus`)
	os.Exit(2)
}

func main() {
	if len(os.Args) < 2 {
		usage()
	}
	defer smt.CleanupScratch()
	switch os.Args[1] {
	case "verify":
		os.Exit(cmdVerify(os.Args[2:]))
	case "check":
		os.Exit(cmdCheck(os.Args[2:]))
	case "callees":
		os.Exit(cmdCallees(os.Args[2:]))
	case "replay":
		os.Exit(cmdReplay(os.Args[2:]))
	case "replaytest":
		// debugging aid: run the replay template registered under <key> for an obligation name
		r := replayers[os.Args[2]]
		src := r.source(nil, os.Args[3])
		ok, out := runOverlayTest(r.pkg, "zz_gowp_replay_test.go", src, r.test)
		fmt.Println(ok, out)
		os.Exit(0)
	case "genast2":
		os.Exit(cmdGenAst2(os.Args[2:]))
	case "selftest":
		os.Exit(cmdSelftest(os.Args[2:]))
	default:
		usage()
	}
}

func cmdVerify(args []string) int {
	fs := flag.NewFlagSet("verify", flag.ExitOnError)
	tmo := fs.Float64("t", 10, "solver timeout (s)")
	verbose := fs.Bool("v", false, "print every obligation")
	dump := fs.String("dump", "", "directory for failed queries")
	thorough := fs.Bool("thorough", false, "all solvers, agreement check")
	only := fs.String("only", "", "solve only the obligations whose name contains this text")
	fs.Parse(args)
	rest := fs.Args()
	if len(rest) < 2 {
		usage()
	}
	rel := rest[0]
	p, err := load.Load("./" + rel)
	if err != nil {
		fmt.Fprintln(os.Stderr, err)
		return 2
	}
	fmt.Printf("loaded in %.1fs\n", p.LoadSecs)
	bad := 0
	setTransparent(p, rel)
	for _, name := range rest[1:] {
		x := sym.NewExec(p.Prog, p.Specs)
		t0 := time.Now()
		var rep *sym.FuncReport
		if strings.HasPrefix(name, "lemma:") || strings.HasPrefix(name, "writers:") {
			path := load.ModulePath + "/" + rel
			db := p.Specs[path]
			if db == nil || db.Funcs[name] == nil {
				fmt.Printf("lemma %s not found in %s\n", name, rel)
				bad++
				continue
			}
			if strings.HasPrefix(name, "writers:") {
				rep = x.VerifyWriters(p.Pkgs[path], db.Funcs[name])
			} else {
				rep = x.VerifyLemma(p.Pkgs[path], db.Funcs[name])
			}
		} else {
			fn := p.Func(rel, name)
			if fn == nil {
				fmt.Printf("function %s not found in %s\n", name, rel)
				bad++
				continue
			}
			rep = x.Verify(fn)
		}
		gen := time.Since(t0)
		var ps []*sym.Prepared
		for _, o := range rep.Obligations {
			if *only != "" && !strings.Contains(o.Name, *only) {
				continue
			}
			ps = append(ps, x.Prepare(o))
		}
		outs := sym.SolveAll(ps, time.Duration(*tmo*float64(time.Second)), *thorough, runtime.NumCPU()/2)
		nOK := 0
		for _, o := range outs {
			if o.Status == "discharged" {
				nOK++
			}
			if *verbose || o.Status != "discharged" {
				fmt.Printf("  %-13s %-10s %5.2fs %s   [%s] %s\n", o.Status, o.By, o.Secs, o.Ob.Name, o.Ob.Where, o.Ob.Text)
				if o.Status != "discharged" {
					if len(o.Model) > 0 {
						var ms []string
						for k, v := range o.Model {
							if !strings.Contains(k, "!") || len(o.Model) < 30 {
								ms = append(ms, k+"="+v)
							}
						}
						if len(ms) > 40 {
							ms = ms[:40]
						}
						fmt.Printf("      model: %s\n", strings.Join(ms, " "))
					}
				}
				if *dump != "" && (o.Status != "discharged" || *verbose) {
					{
						os.MkdirAll(*dump, 0o755)
						f := fmt.Sprintf("%s/%s.smt2", *dump, strings.NewReplacer("/", "_", ":", "_", "{", "_", "}", "_", "#", "_", "*", "P", "(", "", ")", "").Replace(o.Ob.Name))
						os.WriteFile(f, []byte(o.Script), 0o644)
					}
				}
			}
		}
		fmt.Printf("%s: %d obligations, %d discharged, gen %.2fs, returns=%d panics=%d\n", rep.Func, len(outs), nOK, gen.Seconds(), rep.Returns, rep.PanicExits)
		if rep.Error != "" {
			fmt.Printf("  ERROR: %s\n", rep.Error)
			bad++
		}
		if nOK != len(outs) {
			bad++
		}
		if *verbose {
			for _, n := range rep.Notes {
				fmt.Println("  note:", n)
			}
		}
	}
	if bad > 0 {
		return 1
	}
	return 0
}

// setTransparent applies the "package transparent P..." directive of the package under verification.
func setTransparent(p *load.Program, rel string) {
	sym.TransparentPkgs = map[string]bool{}
	if db := p.Specs[load.ModulePath+"/"+rel]; db != nil {
		for _, t := range db.Transparent {
			sym.TransparentPkgs[t] = true
		}
	}
}
