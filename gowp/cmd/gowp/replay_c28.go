package main

// Replay for type identity, hashing and the type-keyed map (C28): every pair of an enumerated
// universe of types (basic, named, pointer, slice, array, map, chan, signatures with and without
// receivers, structs, interfaces with methods and embedded interfaces; two levels deep) is checked
// for: Identical and Hash return without failing, Identical is reflexive and symmetric, identical
// types have equal hashes; then transitivity over all triples of a sub-universe; then every
// three-operation history of Set/Delete over colliding and identical keys against a list model.

const replayC28 = `package typeutil

import (
	"fmt"
	"go/token"
	"testing"

	"github.com/cosmos72/gomacro/go/types"
)

func gowpUniverse() []types.Type {
	pkg := types.NewPackage("example.com/p", "p")
	named := func(name string, u types.Type) *types.Named {
		return types.NewNamed(types.NewTypeName(token.NoPos, pkg, name, nil), u, nil)
	}
	v := func(name string, t types.Type) *types.Var { return types.NewVar(token.NoPos, pkg, name, t) }
	sig := func(recv *types.Var, params, results []*types.Var, variadic bool) *types.Signature {
		return types.NewSignature(recv, types.NewTuple(params...), types.NewTuple(results...), variadic)
	}
	i0, i8, str := types.Typ[types.Int], types.Typ[types.Int8], types.Typ[types.String]
	base := []types.Type{i0, i8, str, types.Universe.Lookup("byte").Type(), types.Typ[types.Uint8]}
	// named interfaces to embed
	m1 := types.NewFunc(token.NoPos, pkg, "M1", sig(nil, nil, nil, false))
	m2 := types.NewFunc(token.NoPos, pkg, "M2", sig(nil, nil, []*types.Var{v("", i0)}, false))
	e1 := named("E1", types.NewInterface([]*types.Func{m1}, nil).Complete())
	e2 := named("E2", types.NewInterface([]*types.Func{m2}, nil).Complete())
	n1 := named("N1", i0)
	n2 := named("N2", i0)
	base = append(base, e1, e2, n1, n2)
	mk := func(elems []types.Type) []types.Type {
		var out []types.Type
		for _, e := range elems {
			out = append(out, types.NewPointer(e), types.NewSlice(e), types.NewArray(e, 3), types.NewArray(e, 4),
				types.NewMap(str, e), types.NewMap(e, str), types.NewChan(types.SendRecv, e), types.NewChan(types.SendOnly, e),
				sig(nil, []*types.Var{v("a", e)}, nil, false),
				sig(nil, nil, []*types.Var{v("", e)}, false),
				sig(nil, []*types.Var{v("a", types.NewSlice(e))}, nil, true),
				sig(v("r", e), nil, nil, false),
				types.NewStruct([]*types.Var{types.NewField(token.NoPos, pkg, "F", e, false)}, nil),
				types.NewStruct([]*types.Var{types.NewField(token.NoPos, pkg, "F", e, false)}, []string{"tag"}),
				types.NewStruct([]*types.Var{types.NewField(token.NoPos, pkg, "G", e, false)}, nil),
			)
		}
		return out
	}
	out := append([]types.Type{}, base...)
	out = append(out, mk(base)...)
	// receivers whose types collide in the hash (array of int / slice of int8)
	out = append(out, sig(v("r", types.NewArray(i0, 3)), nil, nil, false), sig(v("r", types.NewSlice(i8)), nil, nil, false))
	// a struct whose tag list is shorter than its field list (types.NewStruct allows it)
	out = append(out, types.NewStruct([]*types.Var{types.NewField(token.NoPos, pkg, "F", i0, false), types.NewField(token.NoPos, pkg, "G", i0, false)}, []string{"tag"}),
		types.NewStruct([]*types.Var{types.NewField(token.NoPos, pkg, "F", i0, false), types.NewField(token.NoPos, pkg, "G", i0, false)}, []string{"tag"}))
	// interfaces: empty, methods, embedded (fresh objects each: structurally equal, not pointer-equal)
	for k := 0; k < 2; k++ {
		out = append(out,
			types.NewInterface(nil, nil).Complete(),
			types.NewInterface([]*types.Func{types.NewFunc(token.NoPos, pkg, "M1", sig(nil, nil, nil, false))}, nil).Complete(),
			types.NewInterface([]*types.Func{types.NewFunc(token.NoPos, pkg, "M1", sig(nil, []*types.Var{v("a", i0)}, nil, false))}, nil).Complete(),
			types.NewInterface(nil, []*types.Named{e1}).Complete(),
			types.NewInterface(nil, []*types.Named{e2}).Complete(),
			types.NewInterface(nil, []*types.Named{e1, e2}).Complete(),
			types.NewInterface(nil, []*types.Named{e2, e1}).Complete(),
			types.NewInterface([]*types.Func{types.NewFunc(token.NoPos, pkg, "M3", sig(nil, nil, nil, false))}, []*types.Named{e1}).Complete(),
		)
	}
	return out
}

// gowpName: a type, with the receiver of a signature shown (String() omits it)
func gowpName(t types.Type) string {
	if s, ok := t.(*types.Signature); ok && s.Recv() != nil {
		return fmt.Sprintf("func (%v) %v", s.Recv().Type(), t.String()[4:])
	}
	return t.String()
}

func gowpTry(what string, f func()) (failed string) {
	defer func() {
		if r := recover(); r != nil {
			failed = fmt.Sprintf("%s panics: %v", what, r)
		}
	}()
	f()
	return ""
}

func TestGowpReplayC28(t *testing.T) {
	u := gowpUniverse()
	h := MakeHasher()
	n := len(u)
	id := make([][]bool, n)
	hash := make([]uint32, n)
	for i, x := range u {
		if msg := gowpTry(fmt.Sprintf("Hash(%v)", x), func() { hash[i] = h.Hash(x) }); msg != "" {
			t.Fatalf("GOWP-REPLAY-FAIL %s", msg)
		}
		id[i] = make([]bool, n)
		for j, y := range u {
			if msg := gowpTry(fmt.Sprintf("Identical(%v, %v)", x, y), func() { id[i][j] = Identical(x, y) }); msg != "" {
				t.Fatalf("GOWP-REPLAY-FAIL %s", msg)
			}
		}
	}
	for i := range u {
		if !id[i][i] {
			t.Fatalf("GOWP-REPLAY-FAIL Identical(%v, %v) = false: not reflexive", u[i], u[i])
		}
		for j := range u {
			if id[i][j] != id[j][i] {
				t.Fatalf("GOWP-REPLAY-FAIL Identical(%v, %v) = %v but Identical(%v, %v) = %v: not symmetric", u[i], u[j], id[i][j], u[j], u[i], id[j][i])
			}
			if id[i][j] && hash[i] != hash[j] {
				t.Fatalf("GOWP-REPLAY-FAIL Identical(%v, %v) but Hash = %d and %d", u[i], u[j], hash[i], hash[j])
			}
		}
	}
	for i := range u {
		for j := range u {
			if !id[i][j] {
				continue
			}
			for k := range u {
				if id[j][k] && !id[i][k] {
					t.Fatalf("GOWP-REPLAY-FAIL Identical is not transitive on %v, %v, %v", u[i], u[j], u[k])
				}
			}
		}
	}
	// map histories against a list model; keys: every pair of types with the same hash, plus a few others
	var keys []types.Type
	seen := map[int]bool{}
	add := func(i int) {
		if !seen[i] {
			seen[i] = true
			keys = append(keys, u[i])
		}
	}
	for i := range u {
		for j := range u {
			if i < j && hash[i] == hash[j] && !id[i][j] && len(keys) < 16 {
				add(i)
				add(j)
			}
		}
	}
	for i := range u {
		for j := range u {
			if i < j && hash[i] == hash[j] && len(keys) < 20 {
				add(i)
				add(j)
			}
		}
	}
	for i := 0; i < n && len(keys) < 24; i += 7 {
		add(i)
	}
	type kv struct {
		k types.Type
		v int
	}
	type op struct {
		del bool
		k   int
	}
	var ops []op
	for k := range keys {
		ops = append(ops, op{false, k}, op{true, k})
	}
	check := func(hist []op) {
		var m Map
		var model []kv
		desc := ""
		for step, o := range hist {
			key := keys[o.k]
			at := -1
			for i, e := range model {
				if Identical(e.k, key) {
					at = i
				}
			}
			if o.del {
				desc += fmt.Sprintf(" Delete(%s)", gowpName(key))
				got := m.Delete(key)
				if got != (at >= 0) {
					t.Fatalf("GOWP-REPLAY-FAIL history%s: Delete returned %v, the list model says %v", desc, got, at >= 0)
				}
				if at >= 0 {
					model = append(model[:at:at], model[at+1:]...)
				}
			} else {
				desc += fmt.Sprintf(" Set(%s, %d)", gowpName(key), step)
				prev := m.Set(key, step)
				if at >= 0 {
					if prev != model[at].v {
						t.Fatalf("GOWP-REPLAY-FAIL history%s: Set returned previous value %v, the list model says %v", desc, prev, model[at].v)
					}
					model[at].v = step
				} else {
					if prev != nil {
						t.Fatalf("GOWP-REPLAY-FAIL history%s: Set returned previous value %v, the list model says none", desc, prev)
					}
					model = append(model, kv{key, step})
				}
			}
			if m.Len() != len(model) {
				t.Fatalf("GOWP-REPLAY-FAIL history%s: Len() = %d, the list model has %d entries", desc, m.Len(), len(model))
			}
			for _, k := range keys {
				var want interface{}
				for _, e := range model {
					if Identical(e.k, k) {
						want = e.v
					}
				}
				if got := m.At(k); got != want {
					t.Fatalf("GOWP-REPLAY-FAIL history%s: At(%s) = %v, the list model says %v", desc, gowpName(k), got, want)
				}
			}
			cnt := 0
			m.Iterate(func(k types.Type, v interface{}) {
				cnt++
				ok := false
				for _, e := range model {
					if e.k == k && e.v == v {
						ok = true
					}
				}
				if !ok {
					t.Fatalf("GOWP-REPLAY-FAIL history%s: Iterate yields (%v, %v), not in the list model", desc, k, v)
				}
			})
			if cnt != len(model) {
				t.Fatalf("GOWP-REPLAY-FAIL history%s: Iterate yields %d entries, the list model has %d", desc, cnt, len(model))
			}
		}
	}
	for _, a := range ops {
		for _, b := range ops {
			for _, c := range ops {
				check([]op{a, b, c})
			}
		}
	}
	// longer histories over the colliding keys only
	nk := len(keys)
	if nk > 4 {
		nk = 4
	}
	var small []op
	for k := 0; k < nk; k++ {
		small = append(small, op{false, k}, op{true, k})
	}
	var rec func(hist []op)
	rec = func(hist []op) {
		if len(hist) == 5 {
			check(hist)
			return
		}
		for _, o := range small {
			rec(append(hist, o))
		}
	}
	rec(nil)
}
`

func init() {
	r := &replayer{pkg: "go/typeutil", test: "TestGowpReplayC28", kind: "search", source: func(map[string]string, string) string { return replayC28 }}
	for _, f := range []string{"identical", "identicalVar", "Identical", "IdenticalIgnoreTags", "(Hasher).Hash", "(Hasher).hashFor", "(Hasher).hashTuple", "(Hasher).hashVar", "hashNamed", "hashString",
		"(*Map).Delete", "(*Map).At", "(*Map).Set", "(*Map).Len", "(*Map).Iterate", "(*Map).Keys", "(*Map).Values"} {
		replayers["go/typeutil."+f] = r
	}
}
