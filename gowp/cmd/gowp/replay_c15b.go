package main

// Replay for the roll-back of failed type declarations (C15): a name is bound to a named type, to
// an alias of a basic type, to an alias of an unnamed type, or to nothing; a declaration of a
// named type of that name then fails to compile (its underlying type mentions an unknown type);
// afterwards the name must mean what it meant before.

const replayC15Type = `package fast

import (
	"fmt"
	"testing"
)

func gowpTryEvalT(ir *Interp, src string) (out string) {
	defer func() {
		if r := recover(); r != nil {
			out = fmt.Sprintf("PANIC %v", r)
		}
	}()
	vals, _ := ir.Eval(src)
	if len(vals) == 0 {
		return "<none>"
	}
	return fmt.Sprintf("%v", vals[0].ReflectValue())
}

func TestGowpReplayC15Type(t *testing.T) {
	isPanic := func(s string) bool { return len(s) >= 5 && s[:5] == "PANIC" }
	bad := []string{
		"type T struct { A noSuchType }",
		"type T struct { Next *T; Cells []noSuchType }",
		"type T map[string]noSuchType",
	}
	for _, b := range bad {
		for _, c := range []struct{ before, use, want string }{
			{"type T struct { A, B int }", "T{1, 2}.B", "2"},
			{"type T = float64", "T(2) + 0.5", "2.5"},
			{"type T = []int", "len(T{5, 6, 7})", "3"},
			{"type T int", "T(7) + 1", "8"},
		} {
			ir := New()
			if got := gowpTryEvalT(ir, c.before); isPanic(got) {
				t.Fatalf("GOWP-REPLAY-FAIL %q: %s", c.before, got)
			}
			if got := gowpTryEvalT(ir, b); !isPanic(got) {
				t.Fatalf("GOWP-REPLAY-FAIL %q compiled: %s", b, got)
			}
			if got := gowpTryEvalT(ir, c.use); got != c.want {
				t.Fatalf("GOWP-REPLAY-FAIL after %q and the failed declaration %q, %s gives %s, want %s", c.before, b, c.use, got, c.want)
			}
		}
		// nothing declared before: the name stays undeclared
		ir := New()
		if got := gowpTryEvalT(ir, b); !isPanic(got) {
			t.Fatalf("GOWP-REPLAY-FAIL %q compiled: %s", b, got)
		}
		if got := gowpTryEvalT(ir, "var v T"); !isPanic(got) {
			t.Fatalf("GOWP-REPLAY-FAIL after the failed declaration %q of an undeclared name, 'var v T' compiles", b)
		}
	}
}
`

func init() {
	replayers["fast.(*Comp).DeclType"] = &replayer{pkg: "fast", test: "TestGowpReplayC15Type", kind: "search", source: func(map[string]string, string) string { return replayC15Type }}
}
