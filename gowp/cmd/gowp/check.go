package main

import (
	"encoding/json"
	"flag"
	"fmt"
	"os"
	"path/filepath"
	"runtime"
	"sort"
	"strconv"
	"strings"
	"sync"
	"time"

	"gowp/load"
	"gowp/smt"
	"gowp/sym"
)

const verifDir = "/verif"

type finding struct {
	Property   string
	Obligation string
	What       string
	Fixed      bool
}

func readFindings() []finding {
	data, err := os.ReadFile(filepath.Join(verifDir, "known_findings.txt"))
	if err != nil {
		return nil
	}
	var out []finding
	for _, l := range strings.Split(string(data), "\n") {
		l = strings.TrimSpace(l)
		if l == "" || strings.HasPrefix(l, "#") {
			continue
		}
		var f finding
		switch {
		case strings.HasPrefix(l, "finding:"):
			l = strings.TrimSpace(strings.TrimPrefix(l, "finding:"))
		case strings.HasPrefix(l, "fixed:"):
			f.Fixed = true
			l = strings.TrimSpace(strings.TrimPrefix(l, "fixed:"))
		default:
			continue
		}
		parts := strings.SplitN(l, " :: ", 2)
		if len(parts) == 2 {
			f.What = parts[1]
		}
		for _, kv := range strings.Fields(parts[0]) {
			if strings.HasPrefix(kv, "property=") {
				f.Property = strings.TrimPrefix(kv, "property=")
			}
			if strings.HasPrefix(kv, "obligation=") {
				f.Obligation = strings.TrimPrefix(kv, "obligation=")
			}
		}
		out = append(out, f)
	}
	return out
}

// funcResult is the outcome of one function under contract.
type funcResult struct {
	Name     string
	Report   *sym.FuncReport
	Outcomes []*sym.Outcome
	GenSecs  float64
	Closures int
	Extra    map[string]interface{}
}

type checkCtx struct {
	prop     *Property
	tier     string
	seed     int64
	timeout  time.Duration
	thorough bool
	prog     *load.Program
	results  []*funcResult
	trusted  map[string]bool
	bounded  []string
	mu       sync.Mutex
}

func cmdCheck(args []string) int {
	if len(args) < 1 {
		usage()
	}
	id := args[0]
	fs := flag.NewFlagSet("check", flag.ExitOnError)
	tier := fs.String("tier", "", "quick | thorough")
	fs.Parse(args[1:])
	if *tier == "" {
		*tier = os.Getenv("VERIF_TIER")
	}
	if *tier == "" {
		*tier = "quick"
	}
	seed, _ := strconv.ParseInt(os.Getenv("VERIF_SEED"), 10, 64)
	prop := properties[id]
	if prop == nil {
		fmt.Fprintf(os.Stderr, "unknown property %s\n", id)
		return 2
	}
	t0 := time.Now()
	c := &checkCtx{prop: prop, tier: *tier, seed: seed, timeout: 20 * time.Second, trusted: map[string]bool{}}
	if *tier == "thorough" {
		c.thorough = true
		c.timeout = 60 * time.Second
	}
	// load every package the property needs
	pk := map[string]bool{}
	var pats []string
	for _, u := range prop.Units {
		if !pk[u.Pkg] {
			pk[u.Pkg] = true
			pats = append(pats, "./"+u.Pkg)
		}
	}
	prog, err := load.Load(pats...)
	if err != nil {
		fmt.Fprintf(os.Stderr, "engine fault: cannot load %v: %v\n", pats, err)
		return 2
	}
	c.prog = prog
	for _, u := range prop.Units {
		switch u.Kind {
		case "funcs":
			c.runFuncs(u)
		case "family":
			c.runFamily(u)
		default:
			fmt.Fprintf(os.Stderr, "engine fault: unknown unit kind %s\n", u.Kind)
			return 2
		}
	}
	return c.report(time.Since(t0))
}

func (c *checkCtx) runFuncs(u Unit) {
	setTransparent(c.prog, u.Pkg)
	var wg sync.WaitGroup
	sem := make(chan bool, 4)
	res := make([]*funcResult, len(u.Funcs))
	for i, name := range u.Funcs {
		wg.Add(1)
		go func(i int, name string) {
			defer wg.Done()
			sem <- true
			defer func() { <-sem }()
			fr := &funcResult{Name: u.Pkg + "." + name}
			res[i] = fr
			x := sym.NewExec(c.prog.Prog, c.prog.Specs)
			t0 := time.Now()
			if strings.HasPrefix(name, "lemma:") || strings.HasPrefix(name, "writers:") {
				path := load.ModulePath + "/" + u.Pkg
				db := c.prog.Specs[path]
				if db == nil || db.Funcs[name] == nil || c.prog.Pkgs[path] == nil {
					fr.Report = &sym.FuncReport{Func: fr.Name, Error: "lemma not found in the contract files"}
					return
				}
				if strings.HasPrefix(name, "writers:") {
					fr.Report = x.VerifyWriters(c.prog.Pkgs[path], db.Funcs[name])
				} else {
					fr.Report = x.VerifyLemma(c.prog.Pkgs[path], db.Funcs[name])
				}
			} else {
				fn := c.prog.Func(u.Pkg, name)
				if fn == nil {
					fr.Report = &sym.FuncReport{Func: fr.Name, Error: "function under contract not found in the working tree"}
					return
				}
				fr.Report = x.Verify(fn)
			}
			fr.Closures = fr.Report.Closures
			fr.GenSecs = time.Since(t0).Seconds()
			var ps []*sym.Prepared
			for _, o := range fr.Report.Obligations {
				ps = append(ps, x.Prepare(o))
			}
			fr.Outcomes = sym.SolveAll(ps, c.timeout, c.thorough, 4)
			// an obligation no solver decided in time is tried once more, alone and with six times
			// the budget: a loaded machine must not turn into an alarm
			for i, o := range fr.Outcomes {
				if o.Status == "undischarged" {
					if again := sym.Solve(ps[i], 6*c.timeout, c.thorough); again.Status != "undischarged" {
						again.Secs += o.Secs
						fr.Outcomes[i] = again
					}
				}
			}
			c.mu.Lock()
			for _, n := range fr.Report.Notes {
				c.trusted[n] = true
			}
			c.mu.Unlock()
		}(i, name)
	}
	wg.Wait()
	c.results = append(c.results, res...)
}

type replayFile struct {
	Property   string            `json:"property"`
	Obligation string            `json:"obligation"`
	Kind       string            `json:"kind"`
	Clause     string            `json:"clause"`
	Where      string            `json:"where"`
	Status     string            `json:"status"`
	Solvers    []solverOut       `json:"solver_results"`
	Model      map[string]string `json:"model,omitempty"`
	ScriptFile string            `json:"script_file,omitempty"`
	Replay     *replayRun        `json:"replay,omitempty"`
	Note       string            `json:"note,omitempty"`
}

type solverOut struct {
	Solver string  `json:"solver"`
	Status string  `json:"status"`
	Secs   float64 `json:"secs"`
	Raw    string  `json:"raw,omitempty"`
}

type replayRun struct {
	Kind    string `json:"kind"` // unit | differential | search
	Pkg     string `json:"pkg"`
	Test    string `json:"test"`
	Source  string `json:"source"`
	Verdict string `json:"verdict"` // reproduced | not-reproduced | not-run
	Output  string `json:"output,omitempty"`
	Input   string `json:"failing_input,omitempty"`
}

func safeName(s string) string {
	r := strings.NewReplacer("/", "_", ":", "_", "{", "_", "}", "_", "#", "_", "*", "P", "(", "", ")", "", " ", "", ",", "_", "$", "_", "=", "_", "<", "lt", ">", "gt", "!", "not", "&", "and", "|", "or")
	return r.Replace(s)
}

func (c *checkCtx) report(wall time.Duration) int {
	id := c.prop.ID
	findings := readFindings()
	known := map[string]finding{}
	for _, f := range findings {
		if f.Property == id && !f.Fixed {
			known[f.Obligation] = f
		}
	}
	replayDir := filepath.Join(verifDir, "replay", id)
	os.RemoveAll(replayDir)
	total, discharged := 0, 0
	by := map[string]int{}
	byKind := map[string]int{}
	solverSecs := 0.0
	var slow []map[string]interface{}
	var samples []map[string]interface{}
	var funcs []map[string]interface{}
	violations := 0
	engineFault := false
	seenKnown := map[string]bool{}
	var lines []string
	fail := func(fr *funcResult, name, kind, clause, where, status string, o *sym.Outcome, note string) {
		if kf, ok := known[name]; ok {
			seenKnown[name] = true
			lines = append(lines, fmt.Sprintf("KNOWN-FINDING: property=%s obligation=%s :: %s", id, name, kf.What))
			return
		}
		violations++
		os.MkdirAll(replayDir, 0o755)
		rf := &replayFile{Property: id, Obligation: name, Kind: kind, Clause: clause, Where: where, Status: status, Note: note}
		base := filepath.Join(replayDir, safeName(name))
		if o != nil {
			for _, r := range o.Results {
				rf.Solvers = append(rf.Solvers, solverOut{r.Solver, r.Status, r.Secs, firstLines(r.Raw, 6)})
			}
			rf.Model = o.Model
			if o.Script != "" {
				rf.ScriptFile = base + ".smt2"
				os.WriteFile(rf.ScriptFile, []byte(o.Script), 0o644)
			}
		}
		rf.Replay = c.tryReplay(fr, o)
		data, _ := json.MarshalIndent(rf, "", " ")
		os.WriteFile(base+".json", data, 0o644)
		suffix := " no-failing-input-found"
		if rf.Replay != nil && rf.Replay.Verdict == "reproduced" {
			suffix = ""
		}
		lines = append(lines, fmt.Sprintf("VIOLATION property=%s replay=%s obligation=%s%s", id, base+".json", name, suffix))
	}
	for _, fr := range c.results {
		fm := map[string]interface{}{"function": fr.Name, "obligations": len(fr.Outcomes), "gen_secs": round3(fr.GenSecs)}
		if fr.Report != nil {
			fm["returns"] = fr.Report.Returns
			fm["panic_exits"] = fr.Report.PanicExits
		}
		for k, v := range fr.Extra {
			fm[k] = v
		}
		nd := 0
		for _, o := range fr.Outcomes {
			total++
			byKind[o.Ob.Kind]++
			solverSecs += o.Secs
			switch o.Status {
			case "discharged":
				discharged++
				nd++
				by[o.By]++
				if len(samples) < 6 && o.By != "normaliser" && (int(c.seed)+total)%3 == 0 {
					samples = append(samples, map[string]interface{}{"obligation": o.Ob.Name, "clause": o.Ob.Text, "where": o.Ob.Where, "discharged_by": o.By, "secs": round3(o.Secs), "smt_goal": clip(o.Ob.Goal.String(), 600)})
				}
			case "engine-fault":
				engineFault = true
				fmt.Fprintf(os.Stderr, "engine fault: %s on %s\n", o.By, o.Ob.Name)
			default:
				fail(fr, o.Ob.Name, o.Ob.Kind, o.Ob.Text, o.Ob.Where, o.Status, o, "")
			}
			if o.Secs > 2 {
				slow = append(slow, map[string]interface{}{"obligation": o.Ob.Name, "secs": round3(o.Secs), "by": o.By})
			}
		}
		fm["discharged"] = nd
		if fr.Report != nil && fr.Report.Error != "" {
			fm["error"] = fr.Report.Error
			total++
			fail(fr, fr.Name+"::generation", "generation", fr.Report.Error, fr.Name, "undischarged", nil, "the verification-condition generator could not process this function; every obligation of it is undischarged")
		}
		if len(fr.Outcomes) == 0 && (fr.Report == nil || fr.Report.Error == "") {
			total++
			fail(fr, fr.Name+"::vacuity", "vacuity", "no obligation generated", fr.Name, "undischarged", nil, "zero obligations: the contract is missing or empty")
		}
		funcs = append(funcs, fm)
	}
	if len(samples) == 0 {
		for _, fr := range c.results {
			for _, o := range fr.Outcomes {
				if o.Status == "discharged" && len(samples) < 3 {
					samples = append(samples, map[string]interface{}{"obligation": o.Ob.Name, "clause": o.Ob.Text, "where": o.Ob.Where, "discharged_by": o.By})
				}
			}
		}
	}
	// a listed finding that no longer fails is reported (not an error: the defect may have been fixed)
	for name := range known {
		if !seenKnown[name] {
			lines = append(lines, fmt.Sprintf("NOTE: known finding no longer reproduces: property=%s obligation=%s", id, name))
		}
	}
	sort.Strings(lines)
	for _, l := range lines {
		fmt.Println(l)
	}
	var tb []string
	for n := range c.trusted {
		tb = append(tb, n)
	}
	tb = append(tb, "machine model: linux/amd64, int/uint/uintptr 64-bit two's complement bit-vectors, IEEE-754 binary32/64 RNE, NaN payloads identified",
		"go/packages + go/ssa (x/tools v0.29.0) as the front end: the verified text is the SSA of the working tree",
		"SMT solvers z3 5.1.0, z3 4.8.12, cvc5 1.0.3 (answers trusted; thorough tier cross-checks them)",
		"slice lengths, capacities and offsets are at most 2^40")
	for _, db := range c.prog.Specs {
		tb = append(tb, db.Assume...)
	}
	sort.Strings(tb)
	nKnown := len(seenKnown)
	ev := map[string]interface{}{
		"property_id": id,
		"tier":        c.tier,
		"seed":        c.seed,
		"level":       "proof",
		"wall_s":      round3(wall.Seconds()),
		"violations":  violations,
		"coverage": map[string]interface{}{
			"obligations":            total - nKnown,
			"discharged":             discharged,
			"known_findings":         nKnown,
			"checker_cmd":            fmt.Sprintf("/verif/bin/gowp check %s --tier %s", id, c.tier),
			"trusted_base":           tb,
			"discharged_by":          by,
			"obligations_by_kind":    byKind,
			"solver_secs":            round3(solverSecs),
			"load_secs":              round3(c.prog.LoadSecs),
			"functions":              funcs,
			"slowest":                slow,
			"samples":                samples,
			"bounded_stand_ins":      c.bounded,
			"not_covered":            c.prop.NotCovered,
			"explanation":            "every obligation is generated from the go/ssa form of /repo's current working tree and the //@ contracts in the zz_verif_contracts.go side-car files; discharged = proved valid (unsat negation) by the named back end",
			"undischarged_or_failed": total - nKnown - discharged,
		},
		"assumptions": tb,
	}
	os.MkdirAll(filepath.Join(verifDir, "evidence"), 0o755)
	data, _ := json.MarshalIndent(ev, "", " ")
	os.WriteFile(filepath.Join(verifDir, "evidence", id+".json"), data, 0o644)
	fmt.Printf("%s: %d obligations, %d discharged, %d known findings, %d violations, %.1fs (load %.1fs)\n", id, total, discharged, nKnown, violations, wall.Seconds(), c.prog.LoadSecs)
	if engineFault {
		return 2
	}
	if violations > 0 {
		return 1
	}
	return 0
}

func firstLines(s string, n int) string {
	ls := strings.Split(s, "\n")
	if len(ls) > n {
		ls = ls[:n]
	}
	return strings.Join(ls, "\n")
}

func clip(s string, n int) string {
	if len(s) > n {
		return s[:n] + "…"
	}
	return s
}

func round3(f float64) float64 { return float64(int(f*1000+0.5)) / 1000 }

var _ = runtime.NumCPU
var _ = smt.Size
