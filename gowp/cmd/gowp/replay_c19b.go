package main

// Replay for deferred calls under the debugger (C19, transparency): functions that defer closures
// changing their named results are run without the debugger and single-stepped (every stop answers
// "step"); the results must agree.

const replayC19Defer = `package fast

import (
	"fmt"
	"testing"

	"github.com/cosmos72/gomacro/base"
)

type gowpStepper struct{ stops int }

func (d *gowpStepper) Breakpoint(ir *Interp, env *Env) DebugOp { return d.At(ir, env) }
func (d *gowpStepper) At(ir *Interp, env *Env) DebugOp        { d.stops++; return DebugOpStep }

const gowpDeferProgram = ` + "`" + `
func d1(x int) (y int) { defer func() { y += 100 }(); y = x + 1; return y }
func d2(x int) (y int) { defer func() { y *= 2 }(); defer func() { y += 3 }(); y = x; return y }
func d3(n int) (s int) { for i := 0; i < n; i++ { defer func(k int) { s += k }(i) }; return 1000 }
func all() int { return d1(1) + 10*d2(5) + d3(4) }
` + "`" + `

func TestGowpReplayC19Defer(t *testing.T) {
	plain := New()
	plain.Eval(gowpDeferProgram)
	pv, _ := plain.Eval("all()")
	want := int(pv[0].Int())

	ir := New()
	ir.Comp.Globals.Options |= base.OptDebugger
	ir.Eval(gowpDeferProgram)
	d := &gowpStepper{}
	ir.SetDebugger(d)
	got := "no value"
	func() {
		defer func() {
			if r := recover(); r != nil {
				got = fmt.Sprint("PANIC: ", r)
			}
		}()
		vals, _ := ir.Debug("all()")
		if len(vals) == 1 && vals[0].IsValid() {
			got = fmt.Sprint(vals[0].Int())
		}
	}()
	if got != fmt.Sprint(want) {
		t.Fatalf("GOWP-REPLAY-FAIL d1(1) + 10*d2(5) + d3(4) with deferred closures changing the named results: single-stepped (%d stops) it gives %s, without the debugger %d", d.stops, got, want)
	}
	if d.stops < 10 {
		t.Fatalf("GOWP-REPLAY-FAIL the debugger was asked only %d times", d.stops)
	}
}
`

func init() {
	replayers["C19|fast.reExecWithFlags"] = &replayer{pkg: "fast", test: "TestGowpReplayC19Defer", kind: "differential", source: func(map[string]string, string) string { return replayC19Defer }}
}
