package main

// Replay for Interp.Cmd (C37): two commands sharing a prefix are registered; an ambiguous prefix
// must leave nothing to evaluate, a unique prefix runs its command, an unknown ':'-prefixed input
// comes back as code with evaluation forced.

const replayC37Cmd = `package fast

import (
	"strings"
	"testing"

	"github.com/cosmos72/gomacro/base"
)

func TestGowpReplayC37Cmd(t *testing.T) {
	ran := ""
	mk := func(name string) Cmd {
		return Cmd{Name: name, Func: func(ir *Interp, arg string, opt base.CmdOpt) (string, base.CmdOpt) { ran = name + "(" + arg + ")"; return "", opt }, Help: name}
	}
	Commands.Add(mk("zzalpha"))
	Commands.Add(mk("zzalbum"))
	defer Commands.Del("zzalpha")
	defer Commands.Del("zzalbum")
	ir := New()
	ir.Comp.Globals.Stdout = &strings.Builder{}
	ir.Comp.Globals.Stderr = &strings.Builder{}
	if rest, _ := ir.Cmd(":zzal 1+1"); rest != "" || ran != "" {
		t.Fatalf("GOWP-REPLAY-FAIL commands zzalpha and zzalbum registered; Cmd(\":zzal 1+1\") returned %q to be evaluated and ran %q: an ambiguous prefix must leave nothing to evaluate", rest, ran)
	}
	if rest, _ := ir.Cmd(":zzalp 1+1"); rest != "" || ran != "zzalpha(1+1)" {
		t.Fatalf("GOWP-REPLAY-FAIL Cmd(\":zzalp 1+1\") returned %q and ran %q, want the command zzalpha", rest, ran)
	}
	ran = ""
	rest, opt := ir.Cmd(":zzzz + 1")
	if strings.TrimSpace(rest) != "zzzz + 1" || opt&base.CmdOptForceEval == 0 || ran != "" {
		t.Fatalf("GOWP-REPLAY-FAIL Cmd(\":zzzz + 1\") returned %q opt=%v ran=%q: an unknown ':'-prefixed input must come back as code with evaluation forced", rest, opt, ran)
	}
}
`

func init() {
	replayers["fast.(*Interp).Cmd"] = &replayer{pkg: "fast", test: "TestGowpReplayC37Cmd", kind: "search", source: func(map[string]string, string) string { return replayC37Cmd }}
}
