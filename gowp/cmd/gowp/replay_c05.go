package main

// Replay for C05 (control transfer): the same function bodies are compiled natively in the test
// and evaluated by the interpreter: goto to labels of the function's own scope and of inner
// scopes, break / continue / goto leaving one to five frames (each nesting level declares a
// variable, so it owns a frame). Only backward gotos: forward gotos are a documented limitation.

const replayC05 = `package fast

import (
	"fmt"
	"testing"
)

func gowpEval05(ir *Interp, src string) (res interface{}, err interface{}) {
	defer func() {
		if r := recover(); r != nil {
			err = r
		}
	}()
	vals, _ := ir.Eval(src)
	if len(vals) > 0 && vals[0].IsValid() {
		res = vals[0].Interface()
	}
	return
}

func gowpN1() int { i := 0; loop: i++; if i < 3 { goto loop }; return i }
func gowpN2() int { s := 0; { i := 0; loop: i++; s += i; if i < 4 { goto loop } }; return s }
func gowpN3() int { s := 0
outer:
	for i := 0; i < 3; i++ { a := i; { b := a + 1; { c := b + 1; { d := c + 1; if d > 0 { s += d; continue outer }; s += 1000 } } } }
	return s }
func gowpN4() int { s := 0
outer:
	for i := 0; i < 5; i++ { a := i; { b := a + 1; { c := b + 1; { d := c + 1; { e := d + 1; if e > 6 { break outer }; s += e } } } } }
	return s }
func gowpN5() int { s, n := 0, 0
again:
	n++
	{ a := n; { b := a + 1; { c := b + 1; { d := c + 1; s += d; if n < 3 { goto again } } } } }
	return s }
func gowpN6() int { s := 0; { n := 0
	again:
		n++
		{ a := n; { b := a + 1; { c := b + 1; { d := c + 1; { e := d + 1; s += e; if n < 4 { goto again } } } } } } }; return s }
func gowpN7() int { s := 0; for i := 0; i < 4; i++ { a := i; for j := 0; j < 4; j++ { b := j; if b == 2 { continue }; if a == 3 { break }; s += a*10 + b } }; return s }

func gowpN8() int { var r rune; s := 0; for _, r = range "abc" { s += int(r) }; return s*1000 + int(r) }
func gowpN9() int { var r rune; s := 0; { q := 1; { w := 2; for _, r = range "héllo" { s += int(r) + q + w } } }; return s*1000 + int(r) }
func gowpN10() int { var a, b, c int = 1, 2, 3; var x interface{}; for _, x = range "abc" { }; return a*100 + b*10 + c + int(x.(rune))*1000 }
func gowpN11() int { var arr [2]int32; n := 0; for _, arr[1] = range "abz" { n++ }; return int(arr[1])*10 + n }
func gowpN12() int { var r rune; func() { for _, r = range "abq" { } }(); return int(r) }

func TestGowpReplayC05(t *testing.T) {
	progs := []struct {
		name, src string
		want      int
	}{
		{"f1", "func f1() int { i := 0; loop: i++; if i < 3 { goto loop }; return i }", gowpN1()},
		{"f2", "func f2() int { s := 0; { i := 0; loop: i++; s += i; if i < 4 { goto loop } }; return s }", gowpN2()},
		{"f3", "func f3() int { s := 0; outer: for i := 0; i < 3; i++ { a := i; { b := a + 1; { c := b + 1; { d := c + 1; if d > 0 { s += d; continue outer }; s += 1000 } } } }; return s }", gowpN3()},
		{"f4", "func f4() int { s := 0; outer: for i := 0; i < 5; i++ { a := i; { b := a + 1; { c := b + 1; { d := c + 1; { e := d + 1; if e > 6 { break outer }; s += e } } } } }; return s }", gowpN4()},
		{"f5", "func f5() int { s, n := 0, 0; again: n++; { a := n; { b := a + 1; { c := b + 1; { d := c + 1; s += d; if n < 3 { goto again } } } } }; return s }", gowpN5()},
		{"f6", "func f6() int { s := 0; { n := 0; again: n++; { a := n; { b := a + 1; { c := b + 1; { d := c + 1; { e := d + 1; s += e; if n < 4 { goto again } } } } } } }; return s }", gowpN6()},
		{"f8", "func f8() int { var r rune; s := 0; for _, r = range \"abc\" { s += int(r) }; return s*1000 + int(r) }", gowpN8()},
		{"f9", "func f9() int { var r rune; s := 0; { q := 1; { w := 2; for _, r = range \"héllo\" { s += int(r) + q + w } } }; return s*1000 + int(r) }", gowpN9()},
		{"f10", "func f10() int { var a, b, c int = 1, 2, 3; var x interface{}; for _, x = range \"abc\" { }; return a*100 + b*10 + c + int(x.(rune))*1000 }", gowpN10()},
		{"f11", "func f11() int { var arr [2]int32; n := 0; for _, arr[1] = range \"abz\" { n++ }; return int(arr[1])*10 + n }", gowpN11()},
		{"f12", "func f12() int { var r rune; func() { for _, r = range \"abq\" { } }(); return int(r) }", gowpN12()},
		{"f7", "func f7() int { s := 0; for i := 0; i < 4; i++ { a := i; for j := 0; j < 4; j++ { b := j; if b == 2 { continue }; if a == 3 { break }; s += a*10 + b } }; return s }", gowpN7()},
	}
	for _, p := range progs {
		ir := New()
		if _, err := gowpEval05(ir, p.src); err != nil {
			t.Fatalf("GOWP-REPLAY-FAIL %s does not compile: %v", p.src, err)
		}
		res, err := gowpEval05(ir, p.name+"()")
		if err != nil || fmt.Sprint(res) != fmt.Sprint(p.want) {
			t.Fatalf("GOWP-REPLAY-FAIL %s; %s() = %v (panic %v), compiled Go gives %d", p.src, p.name, res, err, p.want)
		}
	}
}
`

func init() {
	r := &replayer{pkg: "fast", test: "TestGowpReplayC05", kind: "search", source: func(map[string]string, string) string { return replayC05 }}
	replayers["fast.(*Comp).jumpOut"] = r
	replayers["fast.(*Comp).Goto"] = r
	replayers["fast.(*Comp).rangeString"] = r
}
