package main

// Replay for C37: the contract of prefixSearch / Cmds.Lookup rendered as a Go oracle and run on the
// real functions over every sorted subset of a small name pool (search style: used when the solver
// gives no model because the failed obligation is quantified).

const replayC37 = `package fast

import (
	"io"
	"sort"
	"strings"
	"testing"
)

func TestGowpReplayC37(t *testing.T) {
	pool := []string{"a", "ab", "abc", "b", "ba", "env", "environment", "q"}
	prefixes := []string{"a", "ab", "abc", "abd", "b", "e", "env", "envi", "x", "q", "qu"}
	for mask := 0; mask < 1<<uint(len(pool)); mask++ {
		var vec []Cmd
		for k, n := range pool {
			if mask&(1<<uint(k)) != 0 {
				vec = append(vec, Cmd{Name: n})
			}
		}
		sort.Slice(vec, func(i, j int) bool { return vec[i].Name < vec[j].Name })
		for _, prefix := range prefixes {
			var matches []int
			exact := -1
			for k, c := range vec {
				if strings.HasPrefix(c.Name, prefix) {
					matches = append(matches, k)
				}
				if c.Name == prefix {
					exact = k
				}
			}
			i, err := prefixSearch(vec, prefix)
			names := []string{}
			for _, c := range vec {
				names = append(names, c.Name)
			}
			bad := func(why string) {
				t.Fatalf("GOWP-REPLAY-FAIL prefixSearch(vec=%q, prefix=%q) = (%d, %v): %s", names, prefix, i, err, why)
			}
			switch {
			case exact >= 0:
				if err != nil || vec[i].Name != prefix {
					bad("the prefix equals a registered name, which must be returned")
				}
			case len(matches) == 1:
				if err != nil || i != matches[0] {
					bad("exactly one name has the prefix, it must be returned")
				}
			case len(matches) == 0:
				if err != io.EOF {
					bad("no name has the prefix: io.EOF expected")
				}
			default:
				if err == nil || err == io.EOF {
					bad("several names have the prefix: ambiguity error expected")
				}
				for _, k := range matches {
					if !strings.Contains(err.Error(), vec[k].Name) {
						bad("ambiguity error does not list " + vec[k].Name)
					}
				}
			}
			// the same through the table
			cmds := Cmds{m: map[byte][]Cmd{}}
			for _, c := range vec {
				cmds.Add(c)
			}
			cmd, err2 := cmds.Lookup(prefix)
			if (err2 == nil) != (err == nil) || (err == nil && cmd.Name != vec[i].Name) || (err == io.EOF) != (err2 == io.EOF) {
				t.Fatalf("GOWP-REPLAY-FAIL Cmds.Lookup(%q) over %q = (%q, %v) but prefixSearch = (%d, %v)", prefix, names, cmd.Name, err2, i, err)
			}
		}
	}
}
`

func init() {
	r := &replayer{pkg: "fast", test: "TestGowpReplayC37", kind: "search", source: func(map[string]string, string) string { return replayC37 }}
	for _, f := range []string{"fast.binarySearch", "fast.prefixSearch", "fast.removeCmd", "fast.(Cmds).Lookup", "fast.(Cmds).Add", "fast.(Cmds).Del"} {
		replayers[f] = r
	}
}
