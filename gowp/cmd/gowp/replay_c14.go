package main

// Replay for C14: REPL histories around the capacity of the global slot array. A pointer to a
// global integer is taken early; then integer, float and complex globals are declared, one
// evaluation at a time or many in one evaluation; every evaluation must succeed and the pointer
// must stay aliased to its variable.

const replayC14 = `package fast

import (
	"fmt"
	"strings"
	"testing"
)

func gowpEval14(ir *Interp, src string) (res interface{}, err interface{}) {
	defer func() {
		if r := recover(); r != nil {
			err = r
		}
	}()
	vals, _ := ir.Eval(src)
	if len(vals) > 0 {
		res = vals[0].Interface()
	}
	return
}

func TestGowpReplayC14(t *testing.T) {
	// history A: the address is taken, then single declarations up to and across the capacity,
	// the last one being a complex128 (two slots)
	for _, before := range []int{1019, 1020, 1021, 1022, 1023, 1024} {
		ir := New()
		hist := []string{"var a0 int = 42", "p := &a0"}
		for i := 1; i <= before; i++ {
			hist = append(hist, fmt.Sprintf("var a%d int = %d", i, i))
		}
		hist = append(hist, "var c complex128 = 1+2i", "var d int = 7", "*p = 43", "a0 + d")
		for k, src := range hist {
			res, err := gowpEval14(ir, src)
			if err != nil {
				t.Fatalf("GOWP-REPLAY-FAIL history: var a0 int; p := &a0; %d more int globals; var c complex128; ... : evaluation %d (%s) fails: %v", before, k, src, err)
			}
			if src == "a0 + d" && res != 50 {
				t.Fatalf("GOWP-REPLAY-FAIL history with %d globals: a0 + d = %v, want 50 (pointer no longer aliased)", before, res)
			}
		}
	}
	// history C: a global declared again together with a new name ("z, w := ...": Go assigns to the
	// existing z); code compiled in an earlier evaluation must see the new value
	for _, k := range []struct{ typ, v1, v2, want string }{{"int", "1", "3", "3"}, {"float64", "1.5", "2.5", "2.5"}, {"complex128", "1+2i", "3+4i", "(3+4i)"}, {"complex64", "1+2i", "3+4i", "(3+4i)"}} {
		ir := New()
		for j, src := range []string{"var z " + k.typ + " = " + k.v1, "func getz() " + k.typ + " { return z }", "z, w := " + k.typ + "(" + k.v2 + "), 7"} {
			if _, err := gowpEval14(ir, src); err != nil {
				t.Fatalf("GOWP-REPLAY-FAIL history C (%s) evaluation %d (%s): %v", k.typ, j, src, err)
			}
		}
		if res, err := gowpEval14(ir, "getz()"); err != nil || fmt.Sprint(res) != k.want {
			t.Fatalf("GOWP-REPLAY-FAIL history: var z %s = %s; func getz() %s { return z }; z, w := %s(%s), 7; getz() = %v (%v), want %s: the redeclared global no longer shares its slot", k.typ, k.v1, k.typ, k.typ, k.v2, res, err, k.want)
		}
	}
	// history B: the address is taken in one evaluation, the next evaluation declares many globals at once
	for _, many := range []int{10, 1100} {
		ir := New()
		gowpEval14(ir, "var a0 int = 42")
		gowpEval14(ir, "p := &a0")
		var sb strings.Builder
		for i := 0; i < many; i++ {
			fmt.Fprintf(&sb, "var b%d int = %d\n", i, i)
		}
		if _, err := gowpEval14(ir, sb.String()); err != nil {
			t.Fatalf("GOWP-REPLAY-FAIL history: var a0 int; p := &a0; then %d int globals declared in ONE evaluation: %v", many, err)
		}
		if _, err := gowpEval14(ir, "*p = 43"); err != nil {
			t.Fatalf("GOWP-REPLAY-FAIL history: after %d int globals in one evaluation every later evaluation fails: %v", many, err)
		}
		if res, err := gowpEval14(ir, "a0 + b5"); err != nil || res != 48 {
			t.Fatalf("GOWP-REPLAY-FAIL history with %d globals in one evaluation: a0 + b5 = %v (%v), want 48", many, res, err)
		}
	}
}
`

func init() {
	r := &replayer{pkg: "fast", test: "TestGowpReplayC14", kind: "search", source: func(map[string]string, string) string { return replayC14 }}
	for _, f := range []string{"fast.(*Comp).NewBind", "fast.(*CompBinds).NewBind", "fast.(*Interp).prepareEnv", "fast.(*Interp).CompileAst", "fast.lemma:replRound"} {
		replayers[f] = r
	}
}
