package main

// Replay for the dispatch part of C02: every compound assignment operator on every shape of
// non-variable place (array, slice and map element, pointer dereference, struct field) and on
// variables, for a signed and an unsigned kind, against the operator compiled natively.

const replayC02 = `package fast

import (
	"fmt"
	"math"
	"testing"
)

func gowpEval02(ir *Interp, src string) (res interface{}, err interface{}) {
	defer func() {
		if r := recover(); r != nil {
			err = r
		}
	}()
	vals, _ := ir.Eval(src)
	if len(vals) > 0 && vals[0].IsValid() {
		res = vals[0].Interface()
	}
	return
}

func gowpOp64(op string, a, b int64) int64 {
	switch op {
	case "+=":
		return a + b
	case "-=":
		return a - b
	case "*=":
		return a * b
	case "/=":
		return a / b
	case "%=":
		return a % b
	case "&=":
		return a & b
	case "|=":
		return a | b
	case "^=":
		return a ^ b
	case "&^=":
		return a &^ b
	case "<<=":
		return a << uint64(b)
	case ">>=":
		return a >> uint64(b)
	}
	return b
}

func gowpOp8(op string, a, b uint8) uint8 {
	switch op {
	case "+=":
		return a + b
	case "-=":
		return a - b
	case "*=":
		return a * b
	case "/=":
		return a / b
	case "%=":
		return a % b
	case "&=":
		return a & b
	case "|=":
		return a | b
	case "^=":
		return a ^ b
	case "&^=":
		return a &^ b
	case "<<=":
		return a << b
	case ">>=":
		return a >> b
	}
	return b
}

func gowpBits02(v interface{}) string {
	switch v := v.(type) {
	case float64:
		return fmt.Sprintf("f64:%016x", math.Float64bits(v))
	case complex128:
		return fmt.Sprintf("c128:%016x,%016x", math.Float64bits(real(v)), math.Float64bits(imag(v)))
	}
	return fmt.Sprintf("%T:%v", v, v)
}

// compound assignments with the constants 0, 1, -1 in floating point, on a variable and on places
func TestGowpReplayC02Float(t *testing.T) {
	fstr := func(v float64) string {
		switch {
		case v == 0 && math.Signbit(v):
			return "math.Copysign(0, -1)"
		case math.IsInf(v, 1):
			return "math.Inf(1)"
		case math.IsInf(v, -1):
			return "math.Inf(-1)"
		}
		return fmt.Sprintf("float64(%v)", v)
	}
	nz, inf := math.Copysign(0, -1), math.Inf(1)
	stmts := []struct {
		op string
		f  func(x float64) float64
		g  func(z complex128) complex128
	}{
		{"+= 0", func(x float64) float64 { x += 0; return x }, func(z complex128) complex128 { z += 0; return z }},
		{"-= 0", func(x float64) float64 { x -= 0; return x }, func(z complex128) complex128 { z -= 0; return z }},
		{"*= 0", func(x float64) float64 { x *= 0; return x }, func(z complex128) complex128 { z *= 0; return z }},
		{"*= 1", func(x float64) float64 { x *= 1; return x }, func(z complex128) complex128 { z *= 1; return z }},
		{"*= -1", func(x float64) float64 { x *= -1; return x }, func(z complex128) complex128 { z *= -1; return z }},
		{"/= 1", func(x float64) float64 { x /= 1; return x }, func(z complex128) complex128 { z /= 1; return z }},
		{"/= -1", func(x float64) float64 { x /= -1; return x }, func(z complex128) complex128 { z /= -1; return z }},
		{"/= 0", func(x float64) float64 { var d float64; x /= d; return x }, nil},
		{"/= 2", func(x float64) float64 { x /= 2; return x }, func(z complex128) complex128 { z /= 2; return z }},
	}
	places := []struct{ decl, place string }{
		{"var x K", "x"}, {"var arr [3]K", "arr[1]"}, {"m := map[string]K{}", "m[\"a\"]"}, {"var y K; p := &y", "*p"}, {"var st struct{ A, B K }", "st.B"},
	}
	for _, pl := range places {
		for _, st := range stmts {
			for _, x := range []float64{0, nz, 1, -2.5, inf, -inf} {
				ir := New()
				gowpEval02(ir, "import \"math\"")
				decl := ""
				for _, c := range pl.decl {
					if c == 'K' {
						decl += "float64"
					} else {
						decl += string(c)
					}
				}
				src := fmt.Sprintf("%s; %s = %s; %s %s; %s", decl, pl.place, fstr(x), pl.place, st.op, pl.place)
				res, err := gowpEval02(ir, src)
				want := st.f(x)
				if err != nil || gowpBits02(res) != gowpBits02(want) {
					t.Fatalf("GOWP-REPLAY-FAIL %s: interpreter gives %v (%s, error %v), compiled Go gives %v (%s)", src, res, gowpBits02(res), err, want, gowpBits02(want))
				}
			}
			if st.g == nil || pl.place == "*p" {
				continue // (&y of a complex128 variable is a separate, known limitation)
			}
			for _, z := range []complex128{complex(nz, nz), complex(1, inf), complex(inf, -1), complex(2, -3), complex(0, nz)} {
				ir := New()
				gowpEval02(ir, "import \"math\"")
				decl := ""
				for _, c := range pl.decl {
					if c == 'K' {
						decl += "complex128"
					} else {
						decl += string(c)
					}
				}
				src := fmt.Sprintf("%s; %s = complex(%s, %s); %s %s; %s", decl, pl.place, fstr(real(z)), fstr(imag(z)), pl.place, st.op, pl.place)
				res, err := gowpEval02(ir, src)
				want := st.g(z)
				if err != nil || gowpBits02(res) != gowpBits02(want) {
					t.Fatalf("GOWP-REPLAY-FAIL %s: interpreter gives %v (%s, error %v), compiled Go gives %v (%s)", src, res, gowpBits02(res), err, want, gowpBits02(want))
				}
			}
		}
	}
	// unsigned 64-bit: "all bits set" is not -1
	for _, pl := range places {
		for _, u := range []uint64{0, 1, 7, ^uint64(0), ^uint64(0) - 1} {
			for _, st := range []struct {
				op string
				f  func(u uint64) uint64
			}{
				{"/= 18446744073709551615", func(u uint64) uint64 { u /= 18446744073709551615; return u }},
				{"*= 18446744073709551615", func(u uint64) uint64 { u *= 18446744073709551615; return u }},
				{"/= 8", func(u uint64) uint64 { u /= 8; return u }},
			} {
				ir := New()
				decl := ""
				for _, c := range pl.decl {
					if c == 'K' {
						decl += "uint64"
					} else {
						decl += string(c)
					}
				}
				src := fmt.Sprintf("%s; %s = %d; %s %s; %s", decl, pl.place, u, pl.place, st.op, pl.place)
				res, err := gowpEval02(ir, src)
				if err != nil || fmt.Sprint(res) != fmt.Sprint(st.f(u)) {
					t.Fatalf("GOWP-REPLAY-FAIL %s: interpreter gives %v (error %v), compiled Go gives %d", src, res, err, st.f(u))
				}
			}
		}
	}
}

// two-operand assignments with a blank destination
func TestGowpReplayC02Blank(t *testing.T) {
	for _, p := range []struct{ src, call, want string }{
		{"func t1() int { a, b := 1, 2; _, _ = a, b; return a + b }", "t1()", "3"},
		{"func t3() int { a, b := 1, 2; _, b = b, a; a, _ = b, 7; return a*10 + b }", "t3()", "11"},
		{"func t5() int { n := 0; f := func() int { n++; return n }; _, _ = f(), f(); return n }", "t5()", "2"},
		{"func t6() int { var arr [2]int; i := 0; _, arr[i] = 5, 6; arr[0], _ = arr[0]+1, 9; return arr[0] }", "t6()", "7"},
	} {
		ir := New()
		if _, err := gowpEval02(ir, p.src); err != nil {
			t.Fatalf("GOWP-REPLAY-FAIL %s does not compile: %v", p.src, err)
		}
		if res, err := gowpEval02(ir, p.call); err != nil || fmt.Sprint(res) != p.want {
			t.Fatalf("GOWP-REPLAY-FAIL %s; %s = %v (panic %v), compiled Go gives %s", p.src, p.call, res, err, p.want)
		}
	}
}

func TestGowpReplayC02(t *testing.T) {
	ops := []string{"=", "+=", "-=", "*=", "/=", "%=", "&=", "|=", "^=", "&^=", "<<=", ">>="}
	places := []struct{ decl, place string }{
		{"var x K", "x"},
		{"var arr [3]K", "arr[1]"},
		{"sl := make([]K, 3)", "sl[2]"},
		{"m := map[string]K{}", "m[\"a\"]"},
		{"var y K; p := &y", "*p"},
		{"var st struct{ A, B K }", "st.B"},
	}
	for _, kind := range []string{"int64", "uint8"} {
		for _, pl := range places {
			for _, op := range ops {
				for _, ab := range [][2]int64{{7, 3}, {-9, 2}, {100, 1}, {5, 7}} {
					a, b := ab[0], ab[1]
					if kind == "uint8" && a < 0 {
						a = 247
					}
					ir := New()
					decl := ""
					for _, c := range pl.decl {
						if c == 'K' {
							decl += kind
						} else {
							decl += string(c)
						}
					}
					src := fmt.Sprintf("%s; %s = %d; %s %s %d; %s", decl, pl.place, a, pl.place, op, b, pl.place)
					res, err := gowpEval02(ir, src)
					var want interface{}
					if kind == "int64" {
						want = gowpOp64(op, a, b)
					} else {
						want = gowpOp8(op, uint8(a), uint8(b))
					}
					if err != nil || res != want {
						t.Fatalf("GOWP-REPLAY-FAIL %s (K=%s): interpreter gives %v (error %v), Go gives %v", src, kind, res, err, want)
					}
					// the same with a non-constant right-hand side
					src = fmt.Sprintf("%s; r := %s(%d); %s = %d; %s %s r; %s", decl, kind, b, pl.place, a, pl.place, op, pl.place)
					if op == "<<=" || op == ">>=" {
						src = fmt.Sprintf("%s; r := uint(%d); %s = %d; %s %s r; %s", decl, b, pl.place, a, pl.place, op, pl.place)
					}
					res, err = gowpEval02(ir, src)
					if err != nil || res != want {
						t.Fatalf("GOWP-REPLAY-FAIL %s (K=%s): interpreter gives %v (error %v), Go gives %v", src, kind, res, err, want)
					}
				}
			}
		}
	}
}
`

func init() {
	r := &replayer{pkg: "fast", test: "TestGowpReplayC02", kind: "search", source: func(map[string]string, string) string { return replayC02 }}
	replayers["fast.(*Comp).setPlace"] = r
	replayers["fast.(*Comp).setVar"] = r
	for _, op := range []string{"Add", "Sub", "Mul", "Quo", "Rem", "And", "Or", "Xor", "Andnot"} {
		replayers["fast.(*Comp).var"+op+"Const|stmt-return"] = r
	}
}
