package main

// Replay for the dispatch part of C02: every compound assignment operator on every shape of
// non-variable place (array, slice and map element, pointer dereference, struct field) and on
// variables, for a signed and an unsigned kind, against the operator compiled natively.

const replayC02 = `package fast

import (
	"fmt"
	"testing"
)

func gowpEval02(ir *Interp, src string) (res interface{}, err interface{}) {
	defer func() {
		if r := recover(); r != nil {
			err = r
		}
	}()
	vals, _ := ir.Eval(src)
	if len(vals) > 0 && vals[0].IsValid() {
		res = vals[0].Interface()
	}
	return
}

func gowpOp64(op string, a, b int64) int64 {
	switch op {
	case "+=":
		return a + b
	case "-=":
		return a - b
	case "*=":
		return a * b
	case "/=":
		return a / b
	case "%=":
		return a % b
	case "&=":
		return a & b
	case "|=":
		return a | b
	case "^=":
		return a ^ b
	case "&^=":
		return a &^ b
	case "<<=":
		return a << uint64(b)
	case ">>=":
		return a >> uint64(b)
	}
	return b
}

func gowpOp8(op string, a, b uint8) uint8 {
	switch op {
	case "+=":
		return a + b
	case "-=":
		return a - b
	case "*=":
		return a * b
	case "/=":
		return a / b
	case "%=":
		return a % b
	case "&=":
		return a & b
	case "|=":
		return a | b
	case "^=":
		return a ^ b
	case "&^=":
		return a &^ b
	case "<<=":
		return a << b
	case ">>=":
		return a >> b
	}
	return b
}

func TestGowpReplayC02(t *testing.T) {
	ops := []string{"=", "+=", "-=", "*=", "/=", "%=", "&=", "|=", "^=", "&^=", "<<=", ">>="}
	places := []struct{ decl, place string }{
		{"var x K", "x"},
		{"var arr [3]K", "arr[1]"},
		{"sl := make([]K, 3)", "sl[2]"},
		{"m := map[string]K{}", "m[\"a\"]"},
		{"var y K; p := &y", "*p"},
		{"var st struct{ A, B K }", "st.B"},
	}
	for _, kind := range []string{"int64", "uint8"} {
		for _, pl := range places {
			for _, op := range ops {
				for _, ab := range [][2]int64{{7, 3}, {-9, 2}, {100, 1}, {5, 7}} {
					a, b := ab[0], ab[1]
					if kind == "uint8" && a < 0 {
						a = 247
					}
					ir := New()
					decl := ""
					for _, c := range pl.decl {
						if c == 'K' {
							decl += kind
						} else {
							decl += string(c)
						}
					}
					src := fmt.Sprintf("%s; %s = %d; %s %s %d; %s", decl, pl.place, a, pl.place, op, b, pl.place)
					res, err := gowpEval02(ir, src)
					var want interface{}
					if kind == "int64" {
						want = gowpOp64(op, a, b)
					} else {
						want = gowpOp8(op, uint8(a), uint8(b))
					}
					if err != nil || res != want {
						t.Fatalf("GOWP-REPLAY-FAIL %s (K=%s): interpreter gives %v (error %v), Go gives %v", src, kind, res, err, want)
					}
					// the same with a non-constant right-hand side
					src = fmt.Sprintf("%s; r := %s(%d); %s = %d; %s %s r; %s", decl, kind, b, pl.place, a, pl.place, op, pl.place)
					if op == "<<=" || op == ">>=" {
						src = fmt.Sprintf("%s; r := uint(%d); %s = %d; %s %s r; %s", decl, b, pl.place, a, pl.place, op, pl.place)
					}
					res, err = gowpEval02(ir, src)
					if err != nil || res != want {
						t.Fatalf("GOWP-REPLAY-FAIL %s (K=%s): interpreter gives %v (error %v), Go gives %v", src, kind, res, err, want)
					}
				}
			}
		}
	}
}
`

func init() {
	r := &replayer{pkg: "fast", test: "TestGowpReplayC02", kind: "search", source: func(map[string]string, string) string { return replayC02 }}
	replayers["fast.(*Comp).setPlace"] = r
	replayers["fast.(*Comp).setVar"] = r
}
