package main

// Differential replay for the variable-read families of C01 (identifier.go): a generated gomacro
// snippet reaches the specialisation for every kind x capture depth x storage class, is evaluated by
// the real interpreter and compared with the value the same Go code computes natively.

const replayC01Ident = `package fast

import (
	"fmt"
	"reflect"
	"strings"
	"testing"
)

func gowpEval(ir *Interp, src string) (res []interface{}, err interface{}) {
	defer func() {
		if r := recover(); r != nil {
			err = r
		}
	}()
	vals, _ := ir.Eval(src)
	for _, v := range vals {
		res = append(res, v.Interface())
	}
	return
}

func TestGowpReplayIdent(t *testing.T) {
	cases := []struct {
		typ, lit string
		want     interface{}
	}{
		{"bool", "true", true},
		{"int", "-12345", int(-12345)},
		{"int8", "-7", int8(-7)},
		{"int16", "-300", int16(-300)},
		{"int32", "-70000", int32(-70000)},
		{"int64", "-5000000000", int64(-5000000000)},
		{"uint", "12345", uint(12345)},
		{"uint8", "200", uint8(200)},
		{"uint16", "60000", uint16(60000)},
		{"uint32", "4000000000", uint32(4000000000)},
		{"uint64", "9223372036854775813", uint64(9223372036854775813)},
		{"uintptr", "77", uintptr(77)},
		{"float32", "1.5", float32(1.5)},
		{"float64", "-2.25", float64(-2.25)},
		{"complex64", "(1.5+2i)", complex64(1.5 + 2i)},
		{"complex128", "(-3+4.5i)", complex128(-3 + 4.5i)},
		{"string", "\"hi\"", "hi"},
	}
	for _, c := range cases {
		for depth := 0; depth <= 5; depth++ {
			for _, boxed := range []bool{false, true} {
				ir := New()
				// a pointer to the variable forces boxed storage only for non-basic kinds; the unboxed
				// and boxed classes are both reached by declaring the variable before / after the
				// integer slots are exhausted is impractical here, so "boxed" uses a global in a
				// fresh interpreter (file level variables of basic kinds are unboxed) and a local
				var src string
				open := strings.Repeat(fmt.Sprintf("return func() %s { ", c.typ), depth)
				close := strings.Repeat(" }()", depth)
				if boxed {
					src = fmt.Sprintf("func gowpf() %s { var p *%s; var x %s = %s; p = &x; _ = p; %s return x %s }", c.typ, c.typ, c.typ, c.lit, open, close)
				} else {
					src = fmt.Sprintf("func gowpf() %s { var x %s = %s; %s return x %s }", c.typ, c.typ, c.lit, open, close)
				}
				if _, err := gowpEval(ir, src); err != nil {
					t.Fatalf("GOWP-REPLAY-FAIL kind=%s depth=%d boxed=%v: %s does not compile: %v", c.typ, depth, boxed, src, err)
				}
				res, err := gowpEval(ir, "gowpf()")
				if err != nil || len(res) != 1 || !reflect.DeepEqual(res[0], c.want) {
					t.Fatalf("GOWP-REPLAY-FAIL kind=%s depth=%d boxed=%v: %s => %v (error %v), compiled Go gives %v", c.typ, depth, boxed, src, res, err, c.want)
				}
			}
		}
	}
}
`

func init() {
	r := &replayer{pkg: "fast", test: "TestGowpReplayIdent", kind: "differential", source: func(map[string]string, string) string { return replayC01Ident }}
	for _, f := range []string{"fast.(*Symbol).intExpr", "fast.(*Symbol).expr", "fast.(*Bind).intExpr", "fast.(*Bind).expr", "fast.(*Env).Up"} {
		replayers[f] = r
	}
}
