package main

import "strings"

// Replay for the end of a function body under the debugger (C19, transparency): functions whose
// body does not end in a return statement - plain functions, function literals, deferred closures -
// are run without the debugger and single-stepped (every stop answers "step"); single-stepped they
// must finish, within a bounded number of stops, with the same result.

const replayC19End = `package fast

import (
	"fmt"
	"testing"

	"github.com/cosmos72/gomacro/base"
)

type gowpEndStepper struct{ stops int }

func (d *gowpEndStepper) Breakpoint(ir *Interp, env *Env) DebugOp { return d.At(ir, env) }
func (d *gowpEndStepper) At(ir *Interp, env *Env) DebugOp {
	d.stops++
	if d.stops > 500 {
		panic("the debugger was asked more than 500 times")
	}
	return DebugOpStep
}

func TestGowpReplayC19(t *testing.T) {
	for _, prog := range []string{
		"var x int; func p() { x = 5 }; func all() int { p(); return x }",
		"var x int; func all() int { f := func() { x = 6 }; f(); return x }",
		"func all() (y int) { defer func() { y += 100 }(); y = 2; return y }",
		"var x int; func p(n int) { if n > 0 { x += n; p(n-1) } }; func all() int { p(3); return x }",
		"var x int; func p() { x = 5; return }; func all() int { p(); return x }",
	} {
		plain := New()
		plain.Eval(prog)
		pv, _ := plain.Eval("all()")
		want := fmt.Sprint(pv[0].Int())

		ir := New()
		ir.Comp.Globals.Options |= base.OptDebugger
		ir.Eval(prog)
		d := &gowpEndStepper{}
		ir.SetDebugger(d)
		got := "no value"
		func() {
			defer func() {
				if r := recover(); r != nil {
					got = fmt.Sprint("PANIC: ", r)
				}
			}()
			vals, _ := ir.Debug("all()")
			if len(vals) == 1 && vals[0].IsValid() {
				got = fmt.Sprint(vals[0].Int())
			}
		}()
		if got != want {
			t.Fatalf("GOWP-REPLAY-FAIL %s ; all() single-stepped gives %s (after %d stops), without the debugger %s", prog, got, d.stops, want)
		}
	}
}
`

func init() {
	old := replayers["C19|*"]
	replayers["C19|fast.singleStep"] = &replayer{pkg: "fast", test: "TestGowpReplayC19", kind: "differential", source: func(m map[string]string, ob string) string {
		// the clause about the end of a function body has its own program; the stop rule keeps
		// the trace comparison
		if strings.Contains(ob, "ensures#3") || old == nil {
			return replayC19End
		}
		return old.source(m, ob)
	}}
}
