package main

import (
	"regexp"
	"strings"
)

// Replay for C06: pointers to local variables of several kinds, taken at nesting depth 0..4, and
// closures over locals, must keep their values while every pooled frame is recycled and its slots
// overwritten by a deep recursion; repeated, so that frames come from the pool.

const replayC06 = `package fast

import (
	"fmt"
	"strings"
	"testing"
)

func gowpEval06(ir *Interp, src string) (res interface{}, err interface{}) {
	defer func() {
		if r := recover(); r != nil {
			err = r
		}
	}()
	vals, _ := ir.Eval(src)
	if len(vals) > 0 && vals[0].IsValid() {
		res = vals[0].Interface()
	}
	return
}

func TestGowpReplayC06(t *testing.T) {
	kinds := []struct{ typ, seed, want string }{
		{"float64", "21", "42"}, {"int", "21", "42"}, {"uint8", "21", "42"}, {"int32", "21", "42"}, {"complex64", "21", "(42+0i)"}, {"bool", "true", "true"},
	}
	for _, k := range kinds {
		for depth := 0; depth <= 4; depth++ {
			// total lives 'depth' frames above the block that takes its address
			open, close := "", ""
			for d := 0; d < depth; d++ {
				open += fmt.Sprintf("{ l%d := %d; _ = l%d; ", d, d, d)
				close += "}; "
			}
			upd := "total = total * 2"
			if k.typ == "bool" {
				upd = "total = total || false"
			}
			src := strings.Replace("func mk(seed K) *K { total := seed; var p *K; OPEN "+upd+"; p = &total; CLOSE return p }\n"+
				"func deep(n int, a float64) float64 { b := a + 1000.5; c := b * 2; d := c + a; var q, r, s int = n, n+1, n+2; _, _, _ = q, r, s; if n > 0 { e := deep(n-1, d); d = d + e }; return d }\n"+
				"func run() K { p := mk(SEED); deep(12, 7); return *p }\n", "K", k.typ, -1)
			src = strings.Replace(strings.Replace(strings.Replace(src, "OPEN", open, 1), "CLOSE", close, 1), "SEED", k.seed, 1)
			ir := New()
			if _, err := gowpEval06(ir, src); err != nil {
				t.Fatalf("GOWP-REPLAY-FAIL setup %s: %v", src, err)
			}
			for round := 0; round < 3; round++ {
				res, err := gowpEval06(ir, "run()")
				if err != nil || fmt.Sprint(res) != k.want {
					t.Fatalf("GOWP-REPLAY-FAIL pointer to a %s local taken %d frame(s) below it, after recycling frames (round %d): *p = %v (panic %v), want %s; program: %s", k.typ, depth, round, res, err, k.want, src)
				}
			}
		}
	}
	// a frame that is captured by a closure AND had a slot address taken
	ir := New()
	src := "func bump(p *int) { *p = *p + 1 }\n" +
		"func counter(start int) func() int { count := start; step := 1; bump(&step); return func() int { count += step; return count } }\n" +
		"func filler(n int) int { a := n * 3; b := a + n; c := b - 1; if n > 0 { return c + filler(n-1) }; return b }\n" +
		"func run2() int { f := counter(10); filler(12); x := f(); filler(12); return x*100 + f() }"
	if _, err := gowpEval06(ir, src); err != nil {
		t.Fatalf("GOWP-REPLAY-FAIL setup: %v", err)
	}
	for round := 0; round < 3; round++ {
		if res, err := gowpEval06(ir, "run2()"); err != nil || fmt.Sprint(res) != "1214" {
			t.Fatalf("GOWP-REPLAY-FAIL closure over locals of a frame whose slot address was also taken (round %d): run2() = %v (panic %v), want 1214; program: %s", round, res, err, src)
		}
	}
}

// calls of function variables: a func() local three or more frames above the call, and a
// file-level function variable that is reassigned between two executions of the same call site
func TestGowpReplayC06Calls(t *testing.T) {
	{
		ir := New()
		for _, p := range []struct{ src, call, want string }{
			{"func deep3() int { n := 0; g := func() { n++ }; { a := 1; { b := 2; { c := 3; _ = a + b + c; g() } } }; return n }", "deep3()", "1"},
			{"func deep4() int { n := 0; g := func() { n += 2 }; { a := 1; { b := 2; { c := 3; { d := 4; _ = a + b + c + d; g() } } } }; return n }", "deep4()", "2"},
			{"func deep2() int { n := 0; g := func() { n += 5 }; { a := 1; { b := 2; _ = a + b; g() } }; return n }", "deep2()", "5"},
		} {
			if _, err := gowpEval06(ir, p.src); err != nil {
				t.Fatalf("GOWP-REPLAY-FAIL setup %s: %v", p.src, err)
			}
			if res, err := gowpEval06(ir, p.call); err != nil || fmt.Sprint(res) != p.want {
				t.Fatalf("GOWP-REPLAY-FAIL call of a func() variable declared several frames above the call: %s = %v (panic %v), want %s; program: %s", p.call, res, err, p.want, p.src)
			}
		}
		for _, p := range []struct{ src, call, want string }{
			{"func r0() int { g := func() int { return 7 }; return g() }", "r0()", "7"},
			{"func r1() int { g := func() int { return 8 }; { a := 1; return g() + a } }", "r1()", "9"},
			{"func r2() int { g := func() int { return 10 }; h := func() int { return 20 }; _ = h; { a := 1; h := func() int { return 30 }; _ = h; { b := 2; return g() + a + b } } }", "r2()", "13"},
			{"func r2b() float64 { g := func() float64 { return 1.5 }; { a := 1.0; { b := 2.0; return g() + a + b } } }", "r2b()", "4.5"},
			{"func r3() int { g := func() int { return 10 }; { a := 1; { b := 2; { c := 3; return g() + a + b + c } } } }", "r3()", "16"},
		} {
			if _, err := gowpEval06(ir, p.src); err != nil {
				t.Fatalf("GOWP-REPLAY-FAIL setup %s: %v", p.src, err)
			}
			if res, err := gowpEval06(ir, p.call); err != nil || fmt.Sprint(res) != p.want {
				t.Fatalf("GOWP-REPLAY-FAIL call of a function variable declared above the call: %s = %v (panic %v), want %s; program: %s", p.call, res, err, p.want, p.src)
			}
		}
		//CACHE-HISTORY
	}
}
`

// the history that exhibits known finding F23; part of the replay only for the obligations of the
// closures that cache the callee
const replayC06Cache = `		gowpEval06(ir, "var gf func() = nil; var gn int")
		gowpEval06(ir, "gf = func() { gn += 1 }")
		gowpEval06(ir, "func callgf() { gf() }")
		gowpEval06(ir, "callgf()")
		gowpEval06(ir, "gf = func() { gn += 100 }")
		gowpEval06(ir, "callgf()")
		if res, err := gowpEval06(ir, "gn"); err != nil || fmt.Sprint(res) != "101" {
			t.Fatalf("GOWP-REPLAY-FAIL history: var gf func(); gf = func() { gn += 1 }; func callgf() { gf() }; callgf(); gf = func() { gn += 100 }; callgf(); gn = %v (panic %v), want 101: the call site keeps calling the function gf held at its first execution", res, err)
		}
`

func c06Source(_ map[string]string, ob string) string {
	cached := strings.Contains(ob, "call0ret0$2}") || regexp.MustCompile(`call0ret1\{kret=[0-9]+\}::`).MatchString(ob)
	if cached {
		return strings.Replace(replayC06, "//CACHE-HISTORY", replayC06Cache, 1)
	}
	return replayC06
}

func init() {
	r := &replayer{pkg: "fast", test: "TestGowpReplayC06$", kind: "search", source: func(map[string]string, string) string { return replayC06 }}
	replayers["fast.(*Comp).call0ret1"] = &replayer{pkg: "fast", test: "TestGowpReplayC06Calls", kind: "search", source: c06Source}
	replayers["fast.(*Comp).call0ret0"] = &replayer{pkg: "fast", test: "TestGowpReplayC06Calls", kind: "search", source: c06Source}
	for _, f := range []string{"fast.(*Var).Address", "fast.(*Env).freeEnv", "fast.(*Env).MarkUsedByClosure", "fast.newEnv", "fast.NewEnv", "fast.(*Env).FreeEnv", "fast.(*Env).freeEnv4Func"} {
		replayers[f] = r
	}
}
