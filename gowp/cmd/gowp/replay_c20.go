package main

// Replay for the removal of trivial wrappers (C20): nodes wrapped in every combination of up to
// three layers of parentheses, expression statements, declaration statements and one-statement
// blocks; the result must be free of trivial wrappers, a block holding one declaration must stay,
// and with blocks kept a block must come back untouched.

const replayC20 = `package base

import (
	"go/ast"
	"go/token"
	"testing"

	. "github.com/cosmos72/gomacro/ast2"
)

func TestGowpReplayC20(t *testing.T) {
	ident := func() ast.Node { return ast.NewIdent("x") }
	decl := func() ast.Node {
		return &ast.DeclStmt{Decl: &ast.GenDecl{Tok: token.VAR, Specs: []ast.Spec{&ast.ValueSpec{Names: []*ast.Ident{ast.NewIdent("v")}, Type: ast.NewIdent("int")}}}}
	}
	define := func() ast.Node {
		return &ast.AssignStmt{Lhs: []ast.Expr{ast.NewIdent("v")}, Tok: token.DEFINE, Rhs: []ast.Expr{ast.NewIdent("x")}}
	}
	wrap := []func(ast.Node) ast.Node{
		func(n ast.Node) ast.Node {
			if e, ok := n.(ast.Expr); ok {
				return &ast.ParenExpr{X: e}
			}
			return nil
		},
		func(n ast.Node) ast.Node {
			if e, ok := n.(ast.Expr); ok {
				return &ast.ExprStmt{X: e}
			}
			return nil
		},
		func(n ast.Node) ast.Node {
			if s, ok := n.(ast.Stmt); ok {
				return &ast.BlockStmt{List: []ast.Stmt{s}}
			}
			return nil
		},
	}
	var all []ast.Node
	var rec func(n ast.Node, depth int)
	rec = func(n ast.Node, depth int) {
		all = append(all, n)
		if depth == 3 {
			return
		}
		for _, w := range wrap {
			if m := w(n); m != nil {
				rec(m, depth+1)
			}
		}
	}
	rec(ident(), 0)
	rec(decl(), 0)
	rec(&ast.DeclStmt{Decl: &ast.GenDecl{Tok: token.CONST, Specs: []ast.Spec{&ast.ValueSpec{Names: []*ast.Ident{ast.NewIdent("c")}, Values: []ast.Expr{ast.NewIdent("x")}}}}}, 0)
	rec(&ast.DeclStmt{Decl: &ast.GenDecl{Tok: token.TYPE, Specs: []ast.Spec{&ast.TypeSpec{Name: ast.NewIdent("T"), Type: ast.NewIdent("int")}}}}, 0)
	rec(define(), 0)
	trivial := func(a Ast) bool {
		switch a.(type) {
		case ParenExpr, ExprStmt, DeclStmt:
			return true
		}
		return false
	}
	for _, n := range all {
		in := ToAst(n)
		out := UnwrapTrivialAst(in)
		if trivial(out) {
			t.Fatalf("GOWP-REPLAY-FAIL UnwrapTrivialAst leaves a trivial wrapper: %T from a %T", out, in)
		}
		if b, ok := in.(BlockStmt); ok && len(b.X.List) == 1 {
			switch s := b.X.List[0].(type) {
			case *ast.DeclStmt:
				if out != in {
					t.Fatalf("GOWP-REPLAY-FAIL UnwrapTrivialAst unwraps a block that holds one declaration (into a %T)", out)
				}
			case *ast.AssignStmt:
				if s.Tok == token.DEFINE && out != in {
					t.Fatalf("GOWP-REPLAY-FAIL UnwrapTrivialAst unwraps a block that holds one short variable declaration (into a %T)", out)
				}
			}
		}
		keep := UnwrapTrivialAstKeepBlocks(in)
		if _, ok := in.(BlockStmt); ok && keep != in {
			t.Fatalf("GOWP-REPLAY-FAIL UnwrapTrivialAstKeepBlocks changes a block into a %T", keep)
		}
		if trivial(keep) {
			t.Fatalf("GOWP-REPLAY-FAIL UnwrapTrivialAstKeepBlocks leaves a trivial wrapper: %T", keep)
		}
	}
}
`

func init() {
	replayers["C20|*"] = &replayer{pkg: "base", test: "TestGowpReplayC20", kind: "search", source: func(map[string]string, string) string { return replayC20 }}
}
