package main

// Replay for synthetic statements in the command-line debugger (C19): a scripted session single
// steps to a return statement, gives "next" there and then "continue"; after "next" at call depth d
// the debugger must not stop at a deeper call depth (the deferred closure runs at depth d+1 and is
// reached through the synthetic statement that follows the return).

const replayC19Main = `package debug

import (
	"bufio"
	"bytes"
	"regexp"
	"strconv"
	"strings"
	"testing"

	"github.com/cosmos72/gomacro/base"
	"github.com/cosmos72/gomacro/fast"
)

var gowpStopRe = regexp.MustCompile("// (?:stopped|breakpoint) at [^\\n]*?:(\\d+):\\d+ IP=\\d+, call depth=(\\d+)\\.")

func gowpDebugRun(decls string, expr string, commands string) (stops [][2]int, r int, out string) {
	ir := fast.New()
	g := &ir.Comp.Globals
	g.Options |= base.OptDebugger
	var buf bytes.Buffer
	g.Stdout = &buf
	g.Readline = base.MakeBufReadline(bufio.NewReader(strings.NewReader(commands)))
	ir.SetDebugger(&Debugger{})
	ir.Eval(decls)
	ir.Debug(expr)
	for _, m := range gowpStopRe.FindAllStringSubmatch(buf.String(), -1) {
		line, _ := strconv.Atoi(m[1])
		depth, _ := strconv.Atoi(m[2])
		stops = append(stops, [2]int{line, depth})
	}
	vals, _ := ir.Eval("r")
	return stops, int(vals[0].ReflectValue().Int()), buf.String()
}

func TestGowpReplayC19Main(t *testing.T) {
	decls := "var r int\nfunc f(x int) int {\n\tdefer func() {\n\t\tr += 100\n\t\tr *= 2\n\t\treturn\n\t}()\n\ty := x + 1\n\treturn y\n}"
	for nstep := 1; nstep <= 5; nstep++ {
		stops, r, out := gowpDebugRun(decls, "r = f(1)", strings.Repeat("step\n", nstep)+"next\ncontinue\ncontinue\ncontinue\n")
		if r != 2 {
			t.Fatalf("GOWP-REPLAY-FAIL %d x step, next, continue: r = %d under the debugger, 2 without\n%s", nstep, r, out)
		}
		if len(stops) <= nstep {
			continue
		}
		at := stops[nstep]
		for _, s := range stops[nstep+1:] {
			if s[1] > at[1] {
				t.Fatalf("GOWP-REPLAY-FAIL %d x step, then next at line %d (call depth %d): the debugger stops again at line %d, call depth %d (deeper)\n%s", nstep, at[0], at[1], s[0], s[1], out)
			}
		}
	}
}
`

func init() {
	replayers["fast/debug.(*Debugger).main"] = &replayer{pkg: "fast/debug", test: "TestGowpReplayC19Main", kind: "search", source: func(map[string]string, string) string { return replayC19Main }}
}
