package main

// Replay for Interp.Read (C27): multi-chunk inputs with comments and blank lines in front of the
// code are read chunk by chunk from a buffered reader; after every Read the line counter must have
// advanced by exactly the newlines of the text in front of the first token (all of the text when
// the chunk has no token).

const replayC27Read = `package fast

import (
	"bufio"
	"strings"
	"testing"

	"github.com/cosmos72/gomacro/base"
)

func TestGowpReplayC27Read(t *testing.T) {
	inputs := []string{
		"// c1\n// c2\n\nfoo\n",
		"\n\n\n  x := 1\n",
		"/* a\nb\nc */ y\n",
		"// only a comment\n",
		"// one\n// two\n// three\n",
		"/* a\nb\nc\nd */\n",
		"\n",
		"x\n",
		"x\n\n// c\n\ny\n// d\n",
	}
	for _, in := range inputs {
		ir := New()
		g := &ir.Comp.Globals
		g.Options &^= base.OptShowPrompt
		g.Readline = base.MakeBufReadline(bufio.NewReader(strings.NewReader(in)))
		for k := 0; k < 100; k++ {
			before := g.Line
			src, firstToken := ir.Read()
			want := before
			switch {
			case firstToken < 0:
				want += strings.Count(src, "\n")
			case firstToken > 0:
				want += strings.Count(src[:firstToken], "\n")
			}
			if g.Line != want {
				t.Fatalf("GOWP-REPLAY-FAIL input %q, chunk %d = %q (first token at %d): the line counter goes from %d to %d, the text in front of the first token has %d newlines", in, k, src, firstToken, before, g.Line, want-before)
			}
			if firstToken < 0 && len(src) == 0 {
				break
			}
		}
	}
}
`

func init() {
	replayers["fast.(*Interp).Read"] = &replayer{pkg: "fast", test: "TestGowpReplayC27Read", kind: "search", source: func(map[string]string, string) string { return replayC27Read }}
}
