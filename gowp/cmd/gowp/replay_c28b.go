package main

// Replay for sameName (C28): the identifier rule of the Go specification on a table of names and
// packages, including a missing package on either side, and then Identical on two structs whose
// only difference is the package of an unexported field (nil on one side).

const replayC28SameName = `package typeutil

import (
	"go/token"
	"testing"

	"github.com/cosmos72/gomacro/go/types"
)

func TestGowpReplayC28SameName(t *testing.T) {
	p := types.NewPackage("example.com/p", "p")
	p2 := types.NewPackage("example.com/p", "p")
	q := types.NewPackage("example.com/q", "q")
	for _, c := range []struct {
		xname string
		xpkg  *types.Package
		yname string
		ypkg  *types.Package
		want  bool
	}{
		{"a", nil, "a", nil, true},
		{"a", nil, "a", p, false},
		{"a", p, "a", nil, false},
		{"a", p, "a", p2, true},
		{"a", p, "a", q, false},
		{"A", p, "A", q, true},
		{"A", nil, "A", q, true},
		{"A", p, "A", nil, true},
		{"a", p, "b", p, false},
		{"A", p, "B", p, false},
	} {
		if got := sameName(c.xname, c.xpkg, c.yname, c.ypkg); got != c.want {
			t.Fatalf("GOWP-REPLAY-FAIL sameName(%q, %v, %q, %v) = %v, the identifier rule says %v", c.xname, c.xpkg, c.yname, c.ypkg, got, c.want)
		}
	}
	mk := func(pkg *types.Package) types.Type {
		return types.NewStruct([]*types.Var{types.NewField(token.NoPos, pkg, "f", types.Typ[types.Int], false)}, nil)
	}
	for _, c := range []struct {
		x, y *types.Package
		want bool
	}{{nil, nil, true}, {nil, p, false}, {p, nil, false}, {p, p2, true}, {p, q, false}} {
		if got := Identical(mk(c.x), mk(c.y)); got != c.want {
			t.Fatalf("GOWP-REPLAY-FAIL Identical(struct{f int} of package %v, struct{f int} of package %v) = %v, want %v", c.x, c.y, got, c.want)
		}
	}
}
`

func init() {
	replayers["go/typeutil.sameName"] = &replayer{pkg: "go/typeutil", test: "TestGowpReplayC28SameName", kind: "search", source: func(map[string]string, string) string { return replayC28SameName }}
}
