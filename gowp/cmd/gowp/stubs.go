package main

func cmdSelftest(args []string) int { return 2 }

func (c *checkCtx) runFamily(u Unit) {}
