package main

// Replay for the roll-back of failed function declarations (C15): histories that declare a
// function (or nothing), then redeclare it with a body that fails to compile at different points,
// then use the name: it must still be what it was.

const replayC15 = `package fast

import (
	"fmt"
	"testing"
)

func gowpTryEval(ir *Interp, src string) (out string) {
	defer func() {
		if r := recover(); r != nil {
			out = fmt.Sprintf("PANIC %v", r)
		}
	}()
	vals, _ := ir.Eval(src)
	if len(vals) == 0 {
		return "<none>"
	}
	return fmt.Sprintf("%v", vals[0].ReflectValue())
}

func TestGowpReplayC15(t *testing.T) {
	bad := []string{
		"func f() string { return nope }",
		"func f(x int) (int, int) { y := x; return y, nope() }",
		"func f() { var z int = \"s\" }",
		"func f() int { for i := 0; i < 3; i++ { nope(i) }; return 2 }",
	}
	for _, b := range bad {
		// a previous declaration survives
		ir := New()
		gowpTryEval(ir, "func f() int { return 41 }")
		if got := gowpTryEval(ir, b); len(got) < 5 || got[:5] != "PANIC" {
			t.Fatalf("GOWP-REPLAY-FAIL %q compiled: %s", b, got)
		}
		if got := gowpTryEval(ir, "f() + 1"); got != "42" {
			t.Fatalf("GOWP-REPLAY-FAIL after func f() int { return 41 } and the failing %q, f() + 1 is %s, want 42", b, got)
		}
		// a previous constant or variable of that name survives too
		for _, prev := range []string{"const f = 7", "var f = 7"} {
			ir3 := New()
			gowpTryEval(ir3, prev)
			gowpTryEval(ir3, b)
			if got := gowpTryEval(ir3, "f + 1"); got != "8" {
				t.Fatalf("GOWP-REPLAY-FAIL after %q and the failing %q, f + 1 is %s, want 8", prev, b, got)
			}
		}
		// no previous declaration: the name stays undeclared, and can be declared afterwards
		ir2 := New()
		gowpTryEval(ir2, b)
		if got := gowpTryEval(ir2, "f"); len(got) < 5 || got[:5] != "PANIC" {
			t.Fatalf("GOWP-REPLAY-FAIL after the failing %q alone, f is declared: %s", b, got)
		}
		gowpTryEval(ir2, "func f() int { return 7 }")
		if got := gowpTryEval(ir2, "f()"); got != "7" {
			t.Fatalf("GOWP-REPLAY-FAIL after the failing %q, a later func f() int { return 7 } gives f() = %s", b, got)
		}
	}
}
`

func init() {
	replayers["C15|*"] = &replayer{pkg: "fast", test: "TestGowpReplayC15", kind: "search", source: func(map[string]string, string) string { return replayC15 }}
}
