package main

import (
	"fmt"
	"os"
	"sort"

	"golang.org/x/tools/go/ssa"

	"gowp/load"
	"gowp/sym"
)

// cmdCallees lists the static callees of functions (and of the closures they create) together
// with whether a contract exists: a debugging aid for writing frame contracts.
func cmdCallees(args []string) int {
	if len(args) < 2 {
		usage()
	}
	rel := args[0]
	p, err := load.Load("./" + rel)
	if err != nil {
		fmt.Fprintln(os.Stderr, err)
		return 2
	}
	x := sym.NewExec(p.Prog, p.Specs)
	seen := map[string]int{}
	for _, name := range args[1:] {
		fn := p.Func(rel, name)
		if fn == nil {
			fmt.Println("not found:", name)
			continue
		}
		var walk func(f *ssa.Function)
		walk = func(f *ssa.Function) {
			for _, b := range f.Blocks {
				for _, ins := range b.Instrs {
					if c, ok := ins.(ssa.CallInstruction); ok {
						if callee := c.Common().StaticCallee(); callee != nil {
							seen[callee.String()+"  "+x.Describe(callee)]++
						}
					}
				}
			}
			for _, a := range f.AnonFuncs {
				walk(a)
			}
		}
		walk(fn)
	}
	var ks []string
	for k := range seen {
		ks = append(ks, k)
	}
	sort.Strings(ks)
	for _, k := range ks {
		fmt.Printf("%5d %s\n", seen[k], k)
	}
	return 0
}
