package main

// Replay for the shift families of C01 (binary_shifts.go): every integer kind, the three shapes
// (variable << variable, variable << constant, constant << variable), counts 0, 1, width-1, width,
// 200, with signed and unsigned count types; expected values computed here by Go itself. A
// negative signed count must panic, also when the left operand is zero.

const replayC01Shift = `package fast

import (
	"fmt"
	"reflect"
	"testing"
)

func gowpShiftEval(ir *Interp, src string) (res interface{}, err interface{}) {
	defer func() {
		if r := recover(); r != nil {
			err = r
		}
	}()
	vals, _ := ir.Eval(src)
	if len(vals) == 1 {
		res = vals[0].Interface()
	}
	return
}

func TestGowpReplayC01Shift(t *testing.T) {
	type kind struct {
		name  string
		width uint
		val   string
		shl   func(c uint) interface{}
		shr   func(c uint) interface{}
	}
	kinds := []kind{
		{"int", 64, "-12345", func(c uint) interface{} { x := int(-12345); return x << c }, func(c uint) interface{} { x := int(-12345); return x >> c }},
		{"int8", 8, "-77", func(c uint) interface{} { x := int8(-77); return x << c }, func(c uint) interface{} { x := int8(-77); return x >> c }},
		{"int16", 16, "-300", func(c uint) interface{} { x := int16(-300); return x << c }, func(c uint) interface{} { x := int16(-300); return x >> c }},
		{"int32", 32, "-70000", func(c uint) interface{} { x := int32(-70000); return x << c }, func(c uint) interface{} { x := int32(-70000); return x >> c }},
		{"int64", 64, "-5000000000", func(c uint) interface{} { x := int64(-5000000000); return x << c }, func(c uint) interface{} { x := int64(-5000000000); return x >> c }},
		{"uint", 64, "12345", func(c uint) interface{} { x := uint(12345); return x << c }, func(c uint) interface{} { x := uint(12345); return x >> c }},
		{"uint8", 8, "201", func(c uint) interface{} { x := uint8(201); return x << c }, func(c uint) interface{} { x := uint8(201); return x >> c }},
		{"uint16", 16, "60001", func(c uint) interface{} { x := uint16(60001); return x << c }, func(c uint) interface{} { x := uint16(60001); return x >> c }},
		{"uint32", 32, "4000000001", func(c uint) interface{} { x := uint32(4000000001); return x << c }, func(c uint) interface{} { x := uint32(4000000001); return x >> c }},
		{"uint64", 64, "9223372036854775813", func(c uint) interface{} { x := uint64(9223372036854775813); return x << c }, func(c uint) interface{} { x := uint64(9223372036854775813); return x >> c }},
		{"uintptr", 64, "77", func(c uint) interface{} { x := uintptr(77); return x << c }, func(c uint) interface{} { x := uintptr(77); return x >> c }},
	}
	for _, k := range kinds {
		for _, c := range []uint{0, 1, k.width - 1, k.width, 200} {
			for _, ctyp := range []string{"uint", "int", "uint8", "int64"} {
				for _, op := range []string{"<<", ">>"} {
					want := k.shl(c)
					if op == ">>" {
						want = k.shr(c)
					}
					shapes := []string{
						fmt.Sprintf("func gowpf() %s { var x %s = %s; var c %s = %d; return x %s c }", k.name, k.name, k.val, ctyp, c, op),
						fmt.Sprintf("func gowpf() %s { var x %s = %s; return x %s %d }", k.name, k.name, k.val, op, c),
						fmt.Sprintf("func gowpf() %s { var c %s = %d; return %s(%s) %s c }", k.name, ctyp, c, k.name, k.val, op),
					}
					for _, src := range shapes {
						ir := New()
						gowpShiftEval(ir, src)
						got, err := gowpShiftEval(ir, "gowpf()")
						if err != nil || !reflect.DeepEqual(got, want) {
							t.Fatalf("GOWP-REPLAY-FAIL %s gives %v <%T> (error %v), compiled Go gives %v <%T>", src, got, got, err, want, want)
						}
					}
				}
			}
		}
		// a negative count panics, whatever the left operand is
		for _, src := range []string{
			fmt.Sprintf("func gowpf() %s { var x %s = %s; var c int = -1; return x << c }", k.name, k.name, k.val),
			fmt.Sprintf("func gowpf() %s { var c int = -1; return %s(0) << c }", k.name, k.name),
			fmt.Sprintf("func gowpf() %s { var c int8 = -3; return %s(0) >> c }", k.name, k.name),
		} {
			ir := New()
			gowpShiftEval(ir, src)
			if got, err := gowpShiftEval(ir, "gowpf()"); err == nil {
				t.Fatalf("GOWP-REPLAY-FAIL %s gives %v, compiled Go panics (negative shift amount)", src, got)
			}
		}
	}
}
`

func init() {
	r := &replayer{pkg: "fast", test: "TestGowpReplayC01Shift", kind: "differential", source: func(map[string]string, string) string { return replayC01Shift }}
	replayers["fast.(*Comp).Shl"] = r
	replayers["fast.(*Comp).Shr"] = r
}
