package main

// Replay for the file set with starting lines (C27): files of a few lines are registered with
// starting lines 0, 1, 7 and 1000 next to a standard token.FileSet holding the same contents; for
// every offset of every file the position reported must be the standard one with the line shifted
// by the starting line, and Source must hand out the text of that line.

const replayC27 = `package etoken

import (
	"go/token"
	"strings"
	"testing"
)

func TestGowpReplayC27(t *testing.T) {
	contents := []string{"a\nbb\n\nccc", "x := 1\ny := 2\n", "\n\n", "z"}
	for _, start := range []int{0, 1, 7, 1000} {
		std := token.NewFileSet()
		fs := NewFileSet()
		for k, c := range contents {
			name := string(rune('a'+k)) + ".go"
			sf := std.AddFile(name, -1, len(c))
			sf.SetLinesForContent([]byte(c))
			f := fs.AddFile(name, -1, len(c), start+k)
			f.SetLinesForContent([]byte(c))
			f.SetSourceForContent([]byte(c))
			lines := strings.Split(c, "\n")
			for off := 0; off <= len(c); off++ {
				want := std.Position(sf.Pos(off))
				p := f.Pos(off)
				for _, got := range []token.Position{f.Position(p), fs.PositionFor(p, true), f.PositionFor(p, false)} {
					if got.Filename != want.Filename || got.Column != want.Column || got.Offset != want.Offset || got.Line != want.Line+start+k {
						t.Fatalf("GOWP-REPLAY-FAIL file %q registered with starting line %d, offset %d: position %v, the standard file set says %v (line to be shifted by %d)", c, start+k, off, got, want, start+k)
					}
				}
				text, pos := f.Source(p)
				if pos.Line != want.Line+start+k {
					t.Fatalf("GOWP-REPLAY-FAIL Source at offset %d of %q: line %d, want %d", off, c, pos.Line, want.Line+start+k)
				}
				wantText := ""
				if want.Line-1 < len(lines) {
					wantText = lines[want.Line-1]
				}
				if text != wantText {
					t.Fatalf("GOWP-REPLAY-FAIL Source at offset %d of %q (starting line %d): text %q, line %d of the file is %q", off, c, start+k, text, want.Line, wantText)
				}
			}
		}
		if got := fs.PositionFor(token.NoPos, true); got.IsValid() || got.Filename != "" {
			t.Fatalf("GOWP-REPLAY-FAIL the position of NoPos is %v", got)
		}
	}
}
`

func init() {
	replayers["C27|*"] = &replayer{pkg: "go/etoken", test: "TestGowpReplayC27", kind: "search", source: func(map[string]string, string) string { return replayC27 }}
}
