package main

// Replay for the syntax-tree wrapper (C22): every node of a parsed source text that uses every
// statement, expression, declaration and type form (plus hand-made nodes with the flags the parser
// never sets) is wrapped and checked: unwrapping gives the node back; Get panics exactly for the
// indexes outside 0..Size-1; the empty copy made by New has the same token, string and boolean
// attributes (those a Set method restores from a child excepted) and keeps the "if any" positions.

const replayC22 = `package ast2

import (
	"fmt"
	"go/ast"
	"go/parser"
	"go/token"
	"reflect"
	"testing"
)

const gowpCorpus = ` + "`" + `package p

import (
	"fmt"
	m "math"
)

type A = int
type (
	S struct {
		F, G int ` + "`" + ` + "\"tag\"" + ` + "`" + `
		*S
	}
	I interface {
		M(x int, ys ...string) (r bool)
		fmt.Stringer
	}
	C chan<- int
	D <-chan map[string][]*[3]int
	Fn func(...int)
)

const K, L = 1, "s"

var v, w = 'c', 1.5 + 2i

func (s *S) M(x int, ys ...string) (r bool) {
	defer fmt.Println(x)
	go m.Abs(1)
lbl:
	for i := 0; i < 10; i++ {
		if x > 1 {
			continue lbl
		} else if x < 0 {
			break
		} else {
			goto lbl
		}
	}
	for k, e := range ys {
		_, _ = k, e
	}
	switch y := x; {
	case y == 1, y == 2:
		fallthrough
	default:
	}
	switch t := interface{}(x).(type) {
	case int:
		_ = t
	}
	switch q := 7; u := interface{}(q).(type) {
	case int:
		_ = u
	}
	if w := x; w > 0 {
	}
	var ch C
	select {
	case ch <- 1:
	default:
	}
	a := []int{1, 2: 3}
	_ = a[1:2:3]
	_ = a[:]
	_ = s.F + -x*(x)
	_ = func() {}
	x++
	{
		var z struct{}
		_ = z
	}
	fmt.Println(ys...)
	;
	return !r
}
` + "`" + `

func gowpNodes(t *testing.T) []ast.Node {
	fset := token.NewFileSet()
	f, err := parser.ParseFile(fset, "p.go", gowpCorpus, parser.ParseComments)
	if err != nil {
		t.Fatalf("corpus does not parse: %v", err)
	}
	var nodes []ast.Node
	ast.Inspect(f, func(n ast.Node) bool {
		if n != nil {
			switch n.(type) {
			case *ast.Comment, *ast.CommentGroup:
			default:
				nodes = append(nodes, n)
			}
		}
		return true
	})
	// flags the parser sets only on erroneous or unusual input
	nodes = append(nodes,
		&ast.CompositeLit{Type: ast.NewIdent("T"), Incomplete: true},
		&ast.StructType{Fields: &ast.FieldList{}, Incomplete: true},
		&ast.InterfaceType{Methods: &ast.FieldList{}, Incomplete: true},
		&ast.EmptyStmt{Implicit: true},
		&ast.BadExpr{}, &ast.BadStmt{}, &ast.BadDecl{},
		&ast.BranchStmt{Tok: token.BREAK},
		&ast.GenDecl{Tok: token.VAR, Lparen: 1, Rparen: 2},
		&ast.GenDecl{Tok: token.IMPORT},
		&ast.BlockStmt{}, &ast.FieldList{}, &ast.ReturnStmt{},
		&ast.ChanType{Dir: ast.RECV, Value: ast.NewIdent("int")},
	)
	return nodes
}

func gowpPanics(f func()) (p bool) {
	defer func() { p = recover() != nil }()
	f()
	return false
}

func TestGowpReplayC22(t *testing.T) {
	posFlags := map[string]bool{"CallExpr.Ellipsis": true, "TypeSpec.Assign": true, "GenDecl.Lparen": true, "FuncType.Func": true}
	restoredBySet := map[string]bool{"SliceExpr.Slice3": true}
	seen := map[string]bool{}
	for _, n := range gowpNodes(t) {
		name := reflect.TypeOf(n).Elem().Name()
		seen[name] = true
		x := ToAst(n)
		if x == nil {
			t.Fatalf("GOWP-REPLAY-FAIL ToAst(%T) is nil", n)
		}
		if back := ToNode(x); back != n {
			t.Fatalf("GOWP-REPLAY-FAIL ToNode(ToAst(n)) != n for a %T", n)
		}
		size := x.Size()
		if _, isList := x.(AstWithSlice); !isList && name != "Package" {
			for _, i := range []int{-1, size, size + 1, size + 7} {
				i := i
				if !gowpPanics(func() { x.Get(i) }) {
					t.Fatalf("GOWP-REPLAY-FAIL %s.Size() is %d but Get(%d) does not fail", name, size, i)
				}
			}
			for i := 0; i < size; i++ {
				i := i
				if gowpPanics(func() { x.Get(i) }) {
					t.Fatalf("GOWP-REPLAY-FAIL %s.Size() is %d but Get(%d) fails", name, size, i)
				}
			}
		}
		y := x.New()
		m := ToNode(y)
		if m == nil || m == n || reflect.TypeOf(m) != reflect.TypeOf(n) {
			t.Fatalf("GOWP-REPLAY-FAIL %s.New() is not a fresh node of the same type", name)
		}
		a, b := reflect.ValueOf(n).Elem(), reflect.ValueOf(m).Elem()
		for k := 0; k < a.NumField(); k++ {
			fld := a.Type().Field(k)
			key := name + "." + fld.Name
			switch fld.Type.String() {
			case "token.Token", "string", "bool", "ast.ChanDir":
				if restoredBySet[key] || key == "File.GoVersion" {
					continue
				}
				if !reflect.DeepEqual(a.Field(k).Interface(), b.Field(k).Interface()) {
					t.Fatalf("GOWP-REPLAY-FAIL %s.New() drops the attribute %s: %v becomes %v", name, fld.Name, a.Field(k).Interface(), b.Field(k).Interface())
				}
			case "token.Pos":
				if posFlags[key] && (a.Field(k).Int() == 0) != (b.Field(k).Int() == 0) {
					t.Fatalf("GOWP-REPLAY-FAIL %s.New() does not keep whether %s is present", name, fld.Name)
				}
			}
		}
	}
	// the round trip proper: an empty copy, every child read from the original and stored into it
	nodeT := reflect.TypeOf((*ast.Node)(nil)).Elem()
	for _, n := range gowpNodes(t) {
		name := reflect.TypeOf(n).Elem().Name()
		x := ToAst(n)
		if _, isList := x.(AstWithSlice); isList || name == "Package" {
			continue
		}
		z := x.New()
		for i := 0; i < x.Size(); i++ {
			z.Set(i, x.Get(i))
		}
		a, b := reflect.ValueOf(n).Elem(), reflect.ValueOf(ToNode(z)).Elem()
		for k := 0; k < a.NumField(); k++ {
			fld := a.Type().Field(k)
			ft := fld.Type
			if fld.Name == "TypeParams" || ft.String() == "*ast.CommentGroup" || ft.String() == "*ast.Object" || ft.String() == "*ast.Scope" {
				continue
			}
			switch {
			case ft.Implements(nodeT):
				av, bv := a.Field(k), b.Field(k)
				if av.IsNil() != bv.IsNil() || (!av.IsNil() && av.Interface() != bv.Interface()) {
					t.Fatalf("GOWP-REPLAY-FAIL rebuilding a %s from its parts: the child %s is not the original child", name, fld.Name)
				}
			case ft.Kind() == reflect.Slice && ft.Elem().Implements(nodeT):
				av, bv := a.Field(k), b.Field(k)
				if av.Len() != bv.Len() || (av.Len() > 0 && av.Index(0).Interface() != bv.Index(0).Interface()) {
					t.Fatalf("GOWP-REPLAY-FAIL rebuilding a %s from its parts: the list %s is not the original list", name, fld.Name)
				}
			}
		}
	}
	if len(seen) < 45 {
		t.Fatalf("only %d node types in the corpus: %v", len(seen), fmt.Sprint(seen))
	}
}
`

func init() {
	r := &replayer{pkg: "ast2", test: "TestGowpReplayC22", kind: "search", source: func(map[string]string, string) string { return replayC22 }}
	replayers["C22|*"] = r
}
