package main

// Replay for defer / panic / recover (C07): small interpreted programs whose results under Go's
// rules are written next to them (recover honoured only directly in a deferred function of the
// panicking function; nested panics; recover in a helper called by the deferred function; recover
// after a normal return following an escaped panic of an earlier evaluation).

const replayC07 = `package fast

import (
	"fmt"
	"testing"
)

func gowpEval07(ir *Interp, src string) (out string) {
	defer func() {
		if r := recover(); r != nil {
			out = fmt.Sprintf("PANIC %v", r)
		}
	}()
	vals, _ := ir.Eval(src)
	if len(vals) == 0 {
		return "<none>"
	}
	return fmt.Sprintf("%v", vals[0].ReflectValue())
}

func TestGowpReplayC07(t *testing.T) {
	type scen struct{ decl, call, want string }
	scens := []scen{
		{"func a1() (r interface{}) { defer func() { r = recover() }(); panic(7) }", "a1()", "7"},
		{"func a2() (r interface{}) { defer func() { r = recover() }(); return 1 }", "a2()", "<nil>"},
		{"func h3() interface{} { return recover() }; func a3() (r interface{}) { defer func() { r = h3() }(); panic(7) }", "a3()", "PANIC 7"},
		{"func a4() (r int) { defer func() { recover(); r = 5 }(); panic(\"x\") }", "a4()", "5"},
		{"func a5() (s string) { defer func() { s += fmt.Sprint(recover()) }(); defer func() { s += \"b\" }(); defer func() { s += \"a\" }(); panic(\"p\") }", "a5()", "abp"},
		{"func a6() (r interface{}) { defer func() { r = recover() }(); defer func() { panic(2) }(); panic(1) }", "a6()", "2"},
		{"func in7() { defer func() { recover() }(); panic(1) }; func a7() (r interface{}) { defer func() { r = recover() }(); in7(); return }", "a7()", "<nil>"},
		{"func a8() (n int) { for i := 0; i < 3; i++ { defer func(k int) { n = n*10 + k }(i) }; return 0 }", "a8()", "210"},
	}
	for _, s := range scens {
		ir := New()
		gowpEval07(ir, "import \"fmt\"")
		gowpEval07(ir, s.decl)
		if got := gowpEval07(ir, s.call); got != s.want {
			t.Fatalf("GOWP-REPLAY-FAIL %s ; %s gives %s, compiled Go gives %s", s.decl, s.call, got, s.want)
		}
	}
	// a panic that escaped an earlier evaluation must not be handed out later
	ir := New()
	gowpEval07(ir, "func boom() { defer func() {}(); panic(\"old\") }")
	if got := gowpEval07(ir, "boom()"); got != "PANIC old" {
		t.Fatalf("GOWP-REPLAY-FAIL boom() gives %s", got)
	}
	gowpEval07(ir, "func probe() (r interface{}) { defer func() { r = recover() }(); return }")
	if got := gowpEval07(ir, "probe()"); got != "<nil>" {
		t.Fatalf("GOWP-REPLAY-FAIL after a panic escaped an earlier evaluation, recover() in a function that returns normally gives %s, compiled Go gives <nil>", got)
	}
}
`

func init() {
	replayers["C07|*"] = &replayer{pkg: "fast", test: "TestGowpReplayC07", kind: "search", source: func(map[string]string, string) string { return replayC07 }}
}
