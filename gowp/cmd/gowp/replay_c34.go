package main

import (
	"fmt"
	"strings"
)

// Replay for C34: the obligation name carries the kind and the method ({k=int32,m=Rsh}); the
// generated test fetches that method from a fresh Universe (generics v2 on), calls it through
// reflect on a grid of boundary operands - the solver's own operands first, when it gave a model
// over integers - and compares with the Go operator compiled natively for that kind.

var c34Exprs = map[string]struct {
	params int
	expr   string
}{
	"Equal": {2, "a == b"}, "Less": {2, "a < b"},
	"Add": {3, "a + b"}, "Sub": {3, "a - b"}, "Mul": {3, "a * b"}, "Quo": {3, "a / b"}, "Rem": {3, "a % b"},
	"And": {3, "a & b"}, "AndNot": {3, "a &^ b"}, "Or": {3, "a | b"}, "Xor": {3, "a ^ b"},
	"Neg": {2, "-a"}, "Not": {2, "^a"}, "Lsh": {3, "a << s"}, "Rsh": {3, "a >> s"},
}

func c34Source(model map[string]string, ob string) string {
	k, m := "", ""
	if i := strings.Index(ob, "{k="); i >= 0 {
		rest := ob[i+3:]
		if j := strings.Index(rest, ",m="); j >= 0 {
			k = rest[:j]
			m = rest[j+3:]
			if e := strings.IndexAny(m, ";}"); e >= 0 {
				m = m[:e]
			}
		}
	}
	ex, ok := c34Exprs[m]
	intKinds := map[string]bool{"int": true, "int8": true, "int16": true, "int32": true, "int64": true, "uint": true, "uint8": true, "uint16": true, "uint32": true, "uint64": true, "uintptr": true}
	floatKinds := map[string]bool{"float32": true, "float64": true}
	if !ok || !(intKinds[k] || floatKinds[k]) {
		return "package xreflect\n\nimport \"testing\"\n\nfunc TestGowpReplayC34(t *testing.T) { t.Skip(\"no replay template for this kind/method\") }\n"
	}
	if floatKinds[k] && (m == "Rem" || m == "And" || m == "AndNot" || m == "Or" || m == "Xor" || m == "Not" || m == "Lsh" || m == "Rsh") {
		return "package xreflect\n\nimport \"testing\"\n\nfunc TestGowpReplayC34(t *testing.T) { t.Skip(\"no such method\") }\n"
	}
	grid := "0, 1, 2, 3, 7, 100"
	if intKinds[k] {
		if strings.HasPrefix(k, "u") {
			grid += ", ^K(0), ^K(0) - 1, ^K(0) >> 1, (^K(0) >> 1) + 1"
		} else {
			grid += ", -1, -2, -7, -100, K(^uint64(0) >> (65 - bits)), -K(^uint64(0)>>(65-bits)) - 1, -K(^uint64(0)>>(65-bits))"
		}
	} else {
		grid += ", -1, 0.5, -0.5, 1e30, -1e30, K(math.Inf(1)), K(math.Inf(-1)), K(math.NaN()), K(math.Copysign(0, -1)), 1e-40"
	}
	cmp := "got != interface{}(want)"
	if floatKinds[k] {
		cmp = "func() bool { g, ok := got.(K); if !ok { return got != interface{}(want) }; if g != g && want != want { return false }; return g != want || math.Signbit(float64(g)) != math.Signbit(float64(want)) }()"
		if m == "Equal" || m == "Less" {
			cmp = "got != interface{}(want)"
		}
	}
	skip := "false"
	if (m == "Quo" || m == "Rem") && intKinds[k] {
		skip = "b == 0"
	}
	args := "r.ValueOf(a), r.ValueOf(b)"
	switch {
	case ex.params == 3 && (m == "Lsh" || m == "Rsh"):
		args = "r.ValueOf(K(0)), r.ValueOf(a), r.ValueOf(s)"
	case ex.params == 3:
		args = "r.ValueOf(K(0)), r.ValueOf(a), r.ValueOf(b)"
	case ex.params == 2 && (m == "Neg" || m == "Not"):
		args = "r.ValueOf(K(0)), r.ValueOf(a)"
	}
	return fmt.Sprintf(`package xreflect

import (
	"math"
	r "reflect"
	"testing"
	"unsafe"

	"github.com/cosmos72/gomacro/go/etoken"
)

type K = %s

var _ = math.Pi

func TestGowpReplayC34(t *testing.T) {
	save := etoken.GENERICS
	etoken.GENERICS = etoken.GENERICS_V2_CTI
	defer func() { etoken.GENERICS = save }()
	const bits = uint(unsafe.Sizeof(K(0))) * 8
	_ = bits
	v := NewUniverse()
	xt := unwrap(v.BasicTypes[r.TypeOf(K(0)).Kind()])
	mvec := xt.GetMethods()
	var f r.Value
	for i, n := 0, xt.NumMethod(); i < n; i++ {
		if xt.Method(i).Name == %q {
			f = (*mvec)[i]
		}
	}
	if !f.IsValid() {
		t.Fatalf("method not installed")
	}
	grid := []K{%s}
	for _, a := range grid {
		for _, b := range grid {
			for _, s := range []uint8{0, 1, 7, 31, 63, 64, 200} {
				_, _ = b, s
				if %s {
					continue
				}
				want := %s
				got := f.Call([]r.Value{%s})[0].Interface()
				if %s {
					t.Fatalf("GOWP-REPLAY-FAIL %%T.%s: operands a=%%v b=%%v shift=%%v: method returns %%v, Go operator (%s) gives %%v", a, a, b, s, got, want)
				}
			}
		}
	}
}
`, k, m, grid, skip, ex.expr, args, cmp, m, ex.expr)
}

func init() {
	replayers["C34|xreflect.(*Universe).addBasicTypeMethodsCTI"] = &replayer{pkg: "xreflect", test: "TestGowpReplayC34", kind: "search", source: c34Source}
}
