package main

// Unit is one piece of a property's proof: the functions of one package verified against their
// contracts (kind "funcs"), or a closure family (kind "family", see family.go).
type Unit struct {
	Kind  string   // funcs | family
	Pkg   string   // package path relative to the module root
	Funcs []string // contract names
	Fam   string   // family driver name
}

type Property struct {
	ID    string
	Title string
	Units []Unit
	// NotCovered is copied into the evidence: the parts of the statement no contract carries.
	NotCovered []string
}

var properties = map[string]*Property{
	"C37": {
		ID:    "C37",
		Title: "REPL command lookup resolves unique prefixes and reports ambiguity",
		Units: []Unit{
			{Kind: "funcs", Pkg: "fast", Funcs: []string{"binarySearch", "prefixSearch", "removeCmd", "(Cmds).Lookup", "(Cmds).Add", "(Cmds).Del"}},
		},
		NotCovered: []string{"Interp.Cmd: an unknown ':'-prefixed input falls through to evaluation (string slicing and I/O around the lookup)",
			"the exact text of the ambiguity error (strings.Join of the candidate names is specified only as: built from the block of matching names)"},
	},
}
