package main

import (
	"os"
	"regexp"

	"gowp/load"
)

// Unit is one piece of a property's proof: the functions of one package verified against their
// contracts (kind "funcs"), or a closure family (kind "family", see family.go).
type Unit struct {
	Kind  string   // funcs | family
	Pkg   string   // package path relative to the module root
	Funcs []string // contract names
	Fam   string   // family driver name
}

type Property struct {
	ID    string
	Title string
	Units []Unit
	// NotCovered is copied into the evidence: the parts of the statement no contract carries.
	NotCovered []string
}

var properties = map[string]*Property{
	"C01": {
		ID:    "C01",
		Title: "Typed expressions over basic types evaluate exactly as compiled Go",
		Units: []Unit{
			{Kind: "funcs", Pkg: "fast", Funcs: []string{
				"(*Comp).Add", "(*Comp).Sub", "(*Comp).Mul", "(*Comp).Quo", "(*Comp).Rem",
				"(*Comp).And", "(*Comp).Or", "(*Comp).Xor", "(*Comp).Andnot",
				"(*Comp).Lss", "(*Comp).Gtr", "(*Comp).Leq", "(*Comp).Geq", "(*Comp).Eql", "(*Comp).Neq",
				"(*Comp).UnaryMinus", "(*Comp).UnaryXor", "(*Comp).UnaryNot",
				"(*Env).Up", "(*Bind).intExpr", "(*Bind).expr", "(*Symbol).intExpr", "(*Symbol).expr",
				"(*Comp).mulPow2", "(*Comp).quoPow2", "(*Comp).remPow2", "(*Comp).exprZero", "integerLen",
				"(*Comp).Shl", "(*Comp).Shr", "(*Expr).AsUint64",
			}},
		},
		NotCovered: []string{
			"composition over whole expression trees (structural induction on the program: a paper argument, DESIGN.md 4.6)",
			"prepareShift (operand checks, untyped operands: assumed); that the count function a shift closure calls is the one AsUint64 made for its right operand (the two families are verified separately); count functions over reflect.Value operands; && and || (Land, Lor), interface and nil comparisons (eqlneqMisc, eqlneqNilR), BinaryExpr1/UnaryExpr dispatch, EvalConst",
			"isLiteralNumber (assumed contract), constants of negative zero (assumed absent: go/constant holds exact values)",
			"run-time panics: a closure panics exactly where the Go operator it applies panics (closures use the Go operators themselves); compile-time rejection conditions are not under contract",
		},
	},
	"C02": {
		ID:    "C02",
		Title: "Assignments and compound assignments on every kind of place behave as in Go",
		Units: []Unit{
			{Kind: "funcs", Pkg: "fast", Funcs: []string{
				"(*Comp).varAddConst", "(*Comp).varSubConst", "(*Comp).varMulConst", "(*Comp).varQuoConst", "(*Comp).varRemConst",
				"(*Comp).varAndConst", "(*Comp).varOrConst", "(*Comp).varXorConst", "(*Comp).varAndnotConst",
				"(*Comp).varAddExpr", "(*Comp).varSubExpr", "(*Comp).varMulExpr", "(*Comp).varQuoExpr", "(*Comp).varRemExpr",
				"(*Comp).varAndExpr", "(*Comp).varOrExpr", "(*Comp).varXorExpr", "(*Comp).varAndnotExpr",
				"(*Comp).varSetConst", "(*Comp).varSetExpr",
				"(*Comp).setVar", "(*Comp).setPlace", "(*Comp).IncDec",
			}},
		},
		NotCovered: []string{
			"the closures for non-variable places (place_ops.go, place_set.go, place_shifts.go) and for shift-assignments on variables (var_shifts.go), varQuoPow2: only their dispatch is under contract",
			"multi-assignment phase discipline (assign2, assignMulti), blank identifier; that the constant IncDec hands over is 1 (a package variable holding an untyped constant)",
			"statement returns delegated to varSetZero (x *= 0, x %= 1, x &= 0 on integers) are not linked to the zero value; varQuoPow2",
			"composition with the rest of the program (paper induction, DESIGN.md 4.6)",
		},
	},
	"C05": {
		ID:    "C05",
		Title: "Statement control flow is executed exactly as in Go",
		Units: []Unit{
			{Kind: "funcs", Pkg: "fast", Funcs: []string{"(*Comp).jumpOut", "(*Comp).Goto", "(*Comp).rangeString", "(*typecaseHelper).add"}},
		},
		NotCovered: []string{
			"range over a string: only the frame of each closure (what it may write, and that the direct store is chosen only for an int32 slot) - not the iteration itself (utf8 decoding, order, termination)",
			"if / for / switch / type switch / select / other range forms: layout and closures, break and continue label resolution (Comp.Break, Comp.Continue), fallthrough, jump tables (switchGotoSlice/Map, typecaseHelper)",
			"forward goto (documented limitation of the interpreter)",
			"Goto is stated for labels at most two scopes around the goto (the search loop itself is verified for any depth)",
			"composition into whole programs (paper induction)",
		},
	},
	"C06": {
		ID:    "C06",
		Title: "Function calls and closures behave as in Go regardless of frame recycling",
		Units: []Unit{
			{Kind: "funcs", Pkg: "fast", Funcs: []string{"(*Env).freeEnv", "(*Env).MarkUsedByClosure", "newEnv", "NewEnv", "(*Env).FreeEnv", "(*Env).freeEnv4Func", "(*Var).Address", "(*Comp).call0ret0", "(*Comp).call0ret1"}},
		},
		NotCovered: []string{
			"first sentence of the property (results of calls equal compiled Go): of the call*.go / func*ret*.go specialisations only call0ret0 and call0ret1 (a call f() of a function variable without arguments, with zero or one result of a basic kind; callees that are not variables, or of non-identical named result types, are counted uncovered) are under contract",
			"that every function-creating closure marks its frame / frees it exactly once (typestate over func0ret0..func2ret0)",
		},
	},
	"C07": {
		ID:    "C07",
		Title: "defer, panic and recover follow Go semantics in interpreted code",
		Units: []Unit{
			{Kind: "funcs", Pkg: "fast", Funcs: []string{"callRecover", "maybeRepanic", "pushDefer", "popDefer"}},
		},
		NotCovered: []string{
			"the order of deferred calls, the function results (named results modified by deferred functions) and whether a panic escapes, for whole programs: compositions of the executor (reExecWithFlags and its rundefer literal are under contract for C12: their exits restore the bookkeeping), Comp.Defer, the function prologue and epilogue",
			"defer of methods and builtins, defer inside loops (Comp.Defer), the value handed to recover when it is honoured and not nil (reflect conversion)",
		},
	},
	"C12": {
		ID:    "C12",
		Title: "A panic escaping an evaluation at any point leaves later evaluations unaffected",
		Units: []Unit{
			{Kind: "funcs", Pkg: "fast", Funcs: []string{
				"restore", "pushDefer", "popDefer", "(*Run).applyDebugOp", "(*Run).applyAsyncSignal",
				"reExecWithFlags$1", "reExecWithFlags", "exec$1", "execWithFlags$1",
				"(*Interp).prepareEnv", "(*Interp).RunExpr", "(*Interp).DebugExpr",
				"writers:Run.ExecFlags", "writers:Run.DeferOfFun", "writers:Run.Interrupt", "writers:Run.CurrEnv",
			}},
		},
		NotCovered: []string{
			"the induction over the nesting of executors that turns the per-function every-exit contracts plus the writers scans into 'the Run after an aborted evaluation equals the Run before it' (paper step, DESIGN.md)",
			"Run.PanicFun / Run.Panic left set by an escaping panic (harmless only through callRecover, not under contract); Run.InstallDefer",
			"writers of Run fields in other packages (the scan covers package fast); side effects already performed are excluded by the statement",
			"'produces exactly the results it would have produced': equality of later results is reduced to equality of the Run bookkeeping and the unchanged definitions (C15), not proved end to end",
		},
	},
	"C14": {
		ID:    "C14",
		Title: "REPL-style evaluation, one top-level statement at a time, matches in-order Go",
		Units: []Unit{
			{Kind: "funcs", Pkg: "fast", Funcs: []string{"(*CompBinds).NewBind", "(*Comp).NewBind", "(*Interp).prepareEnv", "(*Interp).CompileAst", "lemma:replRound"}},
		},
		NotCovered: []string{
			"first sentence of the property (each evaluation sees the effects of earlier ones; results equal compiled Go): whole-program",
			"that Comp.Compile reaches NewBind only through Comp.NewBind and does not otherwise touch IntBindMax or the top-level Env.Ints (the hypotheses of lemma replRound tie the three contracts together; the tie itself is a paper step)",
		},
	},
	"C34": {
		ID:    "C34",
		Title: "Generic-contract methods on basic and container types agree with Go operators",
		Units: []Unit{
			{Kind: "funcs", Pkg: "xreflect", Funcs: []string{"(*Universe).addBasicTypeMethodsCTI"}},
		},
		NotCovered: []string{
			"container methods implemented through reflection (xreflect/cti_method.go: Len, Cap, Index, Append, Slice, ... on slices, arrays, maps, channels)",
			"that the compiler resolves a method call x.M(...) to the table entry installed for M (fast/ selector code) and the declared signatures in go/types/cti_method.go",
			"string methods: Index/Slice/Len are compared over an uninterpreted model of strings (same indexing function on both sides)",
		},
	},
	"C13": {
		ID:    "C13",
		Title: "Interrupting running code stops it promptly and leaves the interpreter usable",
		Units: []Unit{
			{Kind: "funcs", Pkg: "fast", Funcs: []string{"(*Run).interrupt", "spinInterrupt", "(*Run).applyAsyncSignal", "restore", "reExecWithFlags", "exec$1"}},
		},
		NotCovered: []string{
			"promptness as a bound on a run: for reExecWithFlags (function bodies with defer, deferred calls, debugger mode) every round of at most 15 statements is proved to start with no signal pending, so a signal is noticed at the end of the round it was raised in; the same is proved for the executor without defer (the literal of exec); that a round terminates is not (a statement is an arbitrary function)",
			"asynchronous delivery (the flag is written by another goroutine: data race and memory model are outside the sequential model)",
			"that the interpreter keeps its definitions afterwards is the subject of C12 (every exit restores the bookkeeping), claimed there",
		},
	},
	"C15": {
		ID:    "C15",
		Title: "A failed evaluation leaves earlier definitions intact",
		Units: []Unit{
			{Kind: "funcs", Pkg: "fast", Funcs: []string{"(*Comp).DeclFunc", "(*Comp).DeclType"}},
		},
		NotCovered: []string{
			"everything but the failing declaration itself (a function, or a named type: Comp.DeclFunc and Comp.DeclType restore the previous meaning of the name): variables, constants and types declared by *earlier* declarations of an input that fails later are NOT rolled back by the code (hand-confirmed finding F12: a := 1; then `var a string = \"s\"; var b = nope` leaves a as an invalid string); a contract on Comp.Compile saying so was tried and withdrawn: with its callees uncontracted every panic exit fails, the spurious ones with the genuine one",
			"that no code of a failing input runs (compile before run: Interp.Eval / ParseEvalPrint); type redefinition keeping earlier variables readable (xreflect.NamedOf)",
			"method declarations and generic functions (delegated by DeclFunc to methodDecl / DeclGenericFunc)",
		},
	},
	"C19": {
		ID:    "C19",
		Title: "Debugging is transparent and step/next/finish/continue stop where documented",
		Units: []Unit{
			{Kind: "funcs", Pkg: "fast", Funcs: []string{"singleStep", "(*Run).applyDebugOp", "reExecWithFlags"}},
			{Kind: "funcs", Pkg: "fast/debug", Funcs: []string{"(*Debugger).cmdStep", "(*Debugger).cmdNext", "(*Debugger).cmdFinish", "(*Debugger).cmdContinue", "(*Debugger).main"}},
		},
		NotCovered: []string{
			"transparency in general (same results with and without the debugger is a relation between two executions); two pieces of it are proved: while single-stepping, the end of a function body without a return statement is a return (singleStep), and a pending request to install a deferred function is never left pending across a single step (loop invariants of reExecWithFlags)",
			"that the command table binds s, n, f, c to these four functions (a package-level map: only flat package variables get their initial values, see DESIGN.md 0.2)",
			"explicit breakpoints (Comp.breakpoint), Interp.debug, the debugger's own REPL (of Debugger.main only: a statement that is not shown is answered with the depth in force)",
		},
	},
	"C20": {
		ID:    "C20",
		Title: "Macro expansion rewrites exactly the macro calls and leaves other code unchanged",
		Units: []Unit{
			{Kind: "funcs", Pkg: "base", Funcs: []string{"unwrapTrivialAst2"}},
			{Kind: "funcs", Pkg: "fast", Funcs: []string{"(*Comp).macroExpandCodewalk"}},
		},
		NotCovered: []string{
			"macro expansion itself: of the code walk (Comp.macroExpandCodewalk) only that the quasiquote depth handed to a child is the current one, one more or one less (nesting is counted); which of the three, and macro call detection and argument consumption (MacroExpand1, extractMacroCall), repetition until no macro call remains, quote / quasiquote: recursion over syntax trees with calls of interpreted macros",
			"a one-statement block holding `x := ...` (the operator is read through Ast.Op of the child: proved only for declaration statements); SimplifyNodeForQuote (the ast.Node twin of this function)",
		},
	},
	"C22": {
		ID:    "C22",
		Title: "The uniform syntax-tree wrapper round-trips every node losslessly",
		Units: []Unit{
			{Kind: "funcs", Pkg: "ast2", Funcs: append(ast2Lemmas(), "ToExprSlice", "ToStmtSlice", "ToIdentSlice")},
		},
		NotCovered: []string{
			"the round trip as ONE statement (all children at once) for statements with three and more children: it is proved slot by slot instead (read child i, store it into an empty copy, field i is the same), the whole-node lemma being too slow for the solvers; the slot-to-field correspondence assumed is 'i-th child = i-th child field of the go/ast struct in declaration order'",
			"children that are not nodes of the slot's kind (Set converts them: a statement stored into an expression slot is wrapped); the element-by-element branch of ToExprSlice / ToStmtSlice / ToIdentSlice; Go 1.18 type parameter lists (TypeParams fields, IndexListExpr: ast2 does not carry them)",
			"the list-like wrappers (BlockStmt, FieldList, File, GenDecl, ReturnStmt, Field) beyond New; the slice wrappers of ast_slice.go (Append, Slice); ToNodes; Package (Get and Set are marked TODO in the code)",
			"positions, resolution information (Obj, Scope, Imports, Unresolved, GoVersion) and comments are outside the comparison (the property is position-insensitive)",
		},
	},
	"C26": {
		ID:    "C26",
		Title: "The multiline reader splits input losslessly at complete-statement boundaries",
		Units: []Unit{
			{Kind: "funcs", Pkg: "base", Funcs: []string{"ReadMultiline", "(*Globals).ReadMultiline", "lastIsKeywordIgnoresNl"}},
		},
		NotCovered: []string{
			"that the concatenation of the chunks is the input (byte buffers and string conversion are not modelled at that level)",
			"statement boundaries proper: the line-continuation rules (ignorenl after operators and commas; for keywords lastIsKeywordIgnoresNl is proved to ask the keyword table whenever the line ends in a lower-case letter and to answer as the table says, but not which word it looks up), the test that cuts a chunk (it is read off the code, not proved: a chunk is cut only when the mode is code and no bracket is open), '#!' rewriting, prompts, first-token position",
			"Interp.EvalReader / ReadParseEvalPrint, BufReadline / TtyReadline (assumed: every line handed to the reader ends with a newline unless the input ends)",
		},
	},
	"C27": {
		ID:    "C27",
		Title: "Reported source positions are exact across chunks and line offsets",
		Units: []Unit{
			{Kind: "funcs", Pkg: "go/etoken", Funcs: []string{"(*File).PositionFor", "(*File).Position", "(*File).Source", "(*FileSet).AddFile", "(*FileSet).File", "(*FileSet).PositionFor"}},
			{Kind: "funcs", Pkg: "fast", Funcs: []string{"(*Interp).Read"}},
		},
		NotCovered: []string{
			"the first sentence beyond one Read: Interp.Read is proved to advance the line counter by the newlines in front of the first token of the chunk it hands back (strings.Count as an uninterpreted function); that afterEval advances it by the rest of the chunk, and that errors, panics and debugger stops use these positions, is a property of histories of reads and is not covered",
			"token.File.PositionFor and token.FileSet.File of the standard library are taken as pure functions; SetSourceForContent (splitting the text into lines)",
		},
	},
	"C28": {
		ID:    "C28",
		Title: "Type identity is a total equivalence consistent with type hashing and type maps",
		Units: []Unit{
			{Kind: "funcs", Pkg: "go/typeutil", Funcs: []string{"sameName", "identical", "identicalVar", "Identical", "IdenticalIgnoreTags",
				"(Hasher).Hash", "(Hasher).hashFor", "(Hasher).hashTuple", "(Hasher).hashVar", "hashNamed", "hashString",
				"(*Map).At", "(*Map).Len", "(*Map).Delete", "(*Map).Set"}},
		},
		NotCovered: []string{
			"reflexivity, symmetry and transitivity of Identical, and 'identical types have equal hashes': relational properties of two runs over recursive type structure; they need recursive specification functions mirroring both functions and induction, which the generator and the solvers do not provide. They are assumed where the map contracts need them and exercised only by the replay search",
			"termination of identical and hashFor on cyclic type graphs (partial correctness only)",
			"the well-formedness of types (no nil element, no typed nil component, embedded interfaces are named, function objects have a signature) is assumed in go/types/zz_verif_types.go, not checked against the constructors of go/types",
			"that buckets of different hashes hold no identical keys (follows from hash consistency, not proved); Map.Iterate, Keys, Values, String (call unknown functions or format text)",
		},
	},
	"C36": {
		ID:    "C36",
		Title: "Code completion returns exactly the matching in-scope names, sorted and unique",
		Units: []Unit{
			{Kind: "funcs", Pkg: "fast", Funcs: []string{"sortUnique"}},
		},
		NotCovered: []string{
			"that no input element is lost by sortUnique (the inductive invariant needs an existential witness the solvers do not find)",
			"word splitting and scope search (Interp.CompleteWords, Comp.CompleteWords, completeWord, completeLastWord), field and method listing (listFieldsAndMethods), head/tail reassembly: string- and reflection-heavy code outside the verified subset",
		},
	},
	"C17": {
		ID:    "C17",
		Title: "The dependency sorter returns a deterministic, source-stable topological order",
		Units: []Unit{
			{Kind: "funcs", Pkg: "base/dep", Funcs: []string{"remove_item_inplace", "dup", "sort_unique_inplace"}},
		},
		NotCovered: []string{
			"everything that makes the order topological, deterministic and source-stable: graph.Sort, RemoveNodesNoDeps, RemoveTypeFwd, the cycle error, the phase split in sorter.go, the free-name extraction in scope.go (maps of maps, recursion over syntax trees: outside the verified subset in the time available)",
			"filter_if_inplace (calls an unknown predicate that may change the list)",
		},
	},
	"C37": {
		ID:    "C37",
		Title: "REPL command lookup resolves unique prefixes and reports ambiguity",
		Units: []Unit{
			{Kind: "funcs", Pkg: "fast", Funcs: []string{"binarySearch", "prefixSearch", "removeCmd", "(Cmds).Lookup", "(Cmds).Add", "(Cmds).Del", "(*Interp).Cmd"}},
		},
		NotCovered: []string{"Interp.Cmd: the exact text handed back for evaluation (string slicing around the lookup is uninterpreted: only 'non-empty, evaluation forced' is proved), the command functions themselves",
			"the exact text of the ambiguity error (strings.Join of the candidate names is specified only as: built from the block of matching names)"},
	},
}

// ast2Lemmas: the lemma functions of /repo/ast2/zz_verif_ast2.go (generated by gowp genast2), read
// from the working tree so that a lemma removed from the file is noticed (vacuity: at least 100).
func ast2Lemmas() []string {
	src, err := os.ReadFile(load.RepoDir() + "/ast2/zz_verif_ast2.go")
	if err != nil {
		return []string{"verifWrapUnwrap"}
	}
	var out []string
	for _, m := range regexp.MustCompile(`(?m)^func (verif\w+)\(`).FindAllStringSubmatch(string(src), -1) {
		out = append(out, m[1])
	}
	if len(out) < 100 {
		out = append(out, "verifLemmasMissing")
	}
	return out
}
