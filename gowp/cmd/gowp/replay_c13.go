package main

// Replay for interrupts (C13): a compiled hook called by interpreted loops delivers the interrupt
// at its k-th call, for every k; the running evaluation must end with the interrupt panic before
// the loop completes many more iterations, and afterwards the interpreter must keep its
// definitions and evaluate as before.

const replayC13 = `package fast

import (
	"fmt"
	"testing"

	"github.com/cosmos72/gomacro/base"
)

func TestGowpReplayC13(t *testing.T) {
	programs := []string{
		"func run(n int) int { s := 0; for i := 0; i < n; i++ { hook(); s += i }; return s }",
		"func inner(i int) int { hook(); return i }; func run(n int) int { s := 0; for i := 0; i < n; i++ { s += inner(i) }; return s }",
		"func run(n int) (s int) { defer func() { s++ }(); for i := 0; i < n; i++ { hook(); s += i }; return s }",
	}
	for _, prog := range programs {
		for k := 1; k <= 40; k += 3 {
			ir := New()
			calls := 0
			var target *Interp = ir
			ir.DeclFunc("hook", func() {
				calls++
				if calls == k {
					target.Interrupt(nil)
				}
			})
			ir.Eval("var keep = 12345")
			ir.Eval(prog)
			var got interface{}
			func() {
				defer func() { got = recover() }()
				ir.Eval("run(100000)")
			}()
			if got != base.SigInterrupt {
				t.Fatalf("GOWP-REPLAY-FAIL %s ; interrupt delivered at call %d of the hook: the evaluation ended with %v, want the interrupt panic", prog, k, got)
			}
			if calls > k+64 {
				t.Fatalf("GOWP-REPLAY-FAIL %s ; interrupt delivered at call %d of the hook: the loop went on for %d more iterations", prog, k, calls-k)
			}
			calls = -1000000
			var after string
			func() {
				defer func() {
					if r := recover(); r != nil {
						after = fmt.Sprintf("PANIC %v", r)
					}
				}()
				vals, _ := ir.Eval("keep + run(10)")
				after = fmt.Sprintf("%v", vals[0].ReflectValue())
			}()
			want := "12390"
			if prog == programs[2] {
				want = "12391"
			}
			if after != want {
				t.Fatalf("GOWP-REPLAY-FAIL %s ; after the interrupt at call %d, keep + run(10) gives %s, want %s", prog, k, after, want)
			}
		}
	}
}
`

func init() {
	replayers["C13|fast.exec$1"] = &replayer{pkg: "fast", test: "TestGowpReplayC13", kind: "search", source: func(map[string]string, string) string { return replayC13 }}
	replayers["C13|fast.reExecWithFlags"] = &replayer{pkg: "fast", test: "TestGowpReplayC13", kind: "search", source: func(map[string]string, string) string { return replayC13 }}
	replayers["C13|*"] = &replayer{pkg: "fast", test: "TestGowpReplayC13", kind: "search", source: func(map[string]string, string) string { return replayC13 }}
}
