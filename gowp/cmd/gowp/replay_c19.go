package main

// Replay for the debugger stop rule (C19): a scripted debugger records the call depth of every
// statement it is asked about. A first run single-steps through a program with nested calls and
// gives the full trace; then, for every position of the trace and every command (step, next,
// finish, continue), a run that single-steps up to that position and issues the command there must
// stop next at the first later statement of the full trace that the documented rule selects.

const replayC19 = `package fast

import (
	"testing"

	"github.com/cosmos72/gomacro/base"
)

type gowpStop struct {
	depth int
	ip    int
	env   *Env
}

type gowpDebugger struct {
	script func(n int, depth int) DebugOp
	stops  []gowpStop
}

func (d *gowpDebugger) Breakpoint(ir *Interp, env *Env) DebugOp { return d.At(ir, env) }

func (d *gowpDebugger) At(ir *Interp, env *Env) DebugOp {
	n := len(d.stops)
	d.stops = append(d.stops, gowpStop{env.CallDepth, env.IP, env})
	return d.script(n, env.CallDepth)
}

const gowpProgram = ` + "`" + `
func h(x int) int { x++; return x }
func g(x int) int { y := h(x); y += 2; return y }
func f() int { a := g(1); b := g(a); c := h(b); return a + b + c }
` + "`" + `

func gowpRun(t *testing.T, script func(n, depth int) DebugOp) ([]gowpStop, int) {
	ir := New()
	ir.Comp.Globals.Options |= base.OptDebugger
	ir.Eval(gowpProgram)
	d := &gowpDebugger{script: script}
	ir.SetDebugger(d)
	vals, _ := ir.Debug("f()")
	res := -1
	if len(vals) == 1 && vals[0].IsValid() {
		res = int(vals[0].Int())
	}
	return d.stops, res
}

func TestGowpReplayC19(t *testing.T) {
	plain := New()
	plain.Eval(gowpProgram)
	pv, _ := plain.Eval("f()")
	want := int(pv[0].Int())

	full, res := gowpRun(t, func(n, depth int) DebugOp { return DebugOpStep })
	if res != want {
		t.Fatalf("GOWP-REPLAY-FAIL single-stepping through f() gives %d, without the debugger %d", res, want)
	}
	if len(full) < 10 {
		t.Fatalf("GOWP-REPLAY-FAIL the single-step trace of f() has only %d stops", len(full))
	}
	type cmd struct {
		name string
		op   func(depth int) DebugOp
		stop func(at, later int) bool // does the rule select a later statement of that depth?
	}
	cmds := []cmd{
		{"step", func(d int) DebugOp { return DebugOpStep }, func(at, later int) bool { return true }},
		{"next", func(d int) DebugOp { return DebugOp{d + 1, nil} }, func(at, later int) bool { return later <= at }},
		{"finish", func(d int) DebugOp { return DebugOp{d, nil} }, func(at, later int) bool { return later < at }},
		{"continue", func(d int) DebugOp { return DebugOpContinue }, func(at, later int) bool { return false }},
	}
	for k := range full {
		for _, c := range cmds {
			c := c
			k := k
			stops, res := gowpRun(t, func(n, depth int) DebugOp {
				if n < k {
					return DebugOpStep
				}
				if n == k {
					return c.op(depth)
				}
				return DebugOpContinue
			})
			if res != want {
				t.Fatalf("GOWP-REPLAY-FAIL %s at stop %d: f() gives %d, without the debugger %d", c.name, k, res, want)
			}
			// expected next stop: the first statement after k in the full trace that the rule selects
			exp := -1
			for j := k + 1; j < len(full); j++ {
				if c.stop(full[k].depth, full[j].depth) {
					exp = j
					break
				}
			}
			if exp < 0 {
				if len(stops) != k+1 {
					t.Fatalf("GOWP-REPLAY-FAIL %s at stop %d (depth %d): the debugger is asked again at depth %d, the rule selects no later statement", c.name, k, full[k].depth, stops[k+1].depth)
				}
				continue
			}
			if len(stops) < k+2 {
				t.Fatalf("GOWP-REPLAY-FAIL %s at stop %d (depth %d): execution ran to the end, the rule selects stop %d of the single-step trace (depth %d)", c.name, k, full[k].depth, exp, full[exp].depth)
			}
			if stops[k+1].depth != full[exp].depth || stops[k+1].ip != full[exp].ip {
				t.Fatalf("GOWP-REPLAY-FAIL %s at stop %d (depth %d): next stop at depth %d ip %d, the rule selects depth %d ip %d", c.name, k, full[k].depth, stops[k+1].depth, stops[k+1].ip, full[exp].depth, full[exp].ip)
			}
		}
	}
}
`

func init() {
	r := &replayer{pkg: "fast", test: "TestGowpReplayC19", kind: "search", source: func(map[string]string, string) string { return replayC19 }}
	replayers["C19|*"] = r
}
