package main

// Replay for the quasiquote depth of the macro code walk (C20): a macro call under k quasiquotes
// and j unquotes is expanded exactly when j >= k (it is evaluated code then); with fewer unquotes
// than quasiquotes it is still quoted and must be left alone.

const replayC20Walk = `package fast

import (
	"fmt"
	"strings"
	"testing"
)

func TestGowpReplayC20Walk(t *testing.T) {
	ir := New()
	ir.Eval("~macro seven(a interface{}) interface{} { return ~quote{7777} }")
	for k := 1; k <= 3; k++ {
		for j := 0; j <= k; j++ {
			src := "seven; 2"
			for i := 0; i < j; i++ {
				src = "~unquote{" + src + "}"
			}
			src = "foo; " + src
			for i := 0; i < k; i++ {
				src = "~quasiquote{" + src + "}"
			}
			var got string
			var expanded bool
			func() {
				defer func() {
					if r := recover(); r != nil {
						got = fmt.Sprint("PANIC: ", r)
					}
				}()
				vals, _ := ir.Eval("MacroExpandCodeWalk(~quote{" + src + "})")
				got = ir.Comp.Globals.Sprintf("%v", vals[0].ReflectValue().Interface())
				expanded = vals[1].ReflectValue().Bool()
			}()
			want := j >= k
			has7 := strings.Contains(got, "7777")
			if strings.HasPrefix(got, "PANIC") || expanded != want || has7 != want {
				t.Fatalf("GOWP-REPLAY-FAIL MacroExpandCodeWalk of %s (macro call under %d quasiquotes and %d unquotes): expanded=%v, result %s; want expanded=%v", src, k, j, expanded, strings.Join(strings.Fields(got), " "), want)
			}
		}
	}
}
`

func init() {
	replayers["fast.(*Comp).macroExpandCodewalk"] = &replayer{pkg: "fast", test: "TestGowpReplayC20Walk", kind: "search", source: func(map[string]string, string) string { return replayC20Walk }}
}
