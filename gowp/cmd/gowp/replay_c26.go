package main

// Replay for the multiline reader (C26): every line made of up to four fragments (numbers, names,
// '/', '*', rune / string / raw string literals, general comments of several shapes, blanks) that
// go/parser accepts as a complete expression is fed to ReadMultiline followed by a second line;
// the reader must hand back exactly the first line, then exactly the second, without an error.
// Then: a line ending in a binary operator (followed by nothing, a blank or a tab) must come back
// together with the next line.

const replayC26 = `package base

import (
	"bufio"
	"go/parser"
	"strings"
	"testing"
)

func TestGowpReplayC26(t *testing.T) {
	frags := []string{"1", "x", "/", "*", "'b'", "\"s\"", "` + "`r`" + `", "/*c*/", "/***/", "/**/", " ", "(x)", "[]int{1}[0]"}
	var rec func(line string, n int)
	tried := 0
	rec = func(line string, n int) {
		if n > 0 {
			if _, err := parser.ParseExpr(line); err == nil && strings.TrimSpace(line) != "" {
				tried++
				src := line + "\ny\n"
				in := MakeBufReadline(bufio.NewReader(strings.NewReader(src)))
				c0, _, err0 := ReadMultiline(in, 0, "")
				if err0 != nil || c0 != line+"\n" {
					t.Fatalf("GOWP-REPLAY-FAIL input %q: the first chunk is %q (error %v), want the complete statement %q", src, c0, err0, line+"\n")
				}
				c1, _, err1 := ReadMultiline(in, 0, "")
				if err1 != nil || c1 != "y\n" {
					t.Fatalf("GOWP-REPLAY-FAIL input %q: the second chunk is %q (error %v), want %q", src, c1, err1, "y\n")
				}
			}
		}
		if n == 4 {
			return
		}
		for _, f := range frags {
			rec(line+f, n+1)
		}
	}
	rec("", 0)
	// a statement continued on the next line after a binary operator is not cut
	for _, op := range []string{"/", "*", "+", "-", "=", "<", ">", "&", "|", "^", "%", "&&", "=="} {
		for _, sep := range []string{"", " ", "\t"} {
			src := "x " + op + sep + "\ny\nz\n"
			in := MakeBufReadline(bufio.NewReader(strings.NewReader(src)))
			c0, _, err0 := ReadMultiline(in, 0, "")
			if err0 != nil || c0 != "x "+op+sep+"\ny\n" {
				t.Fatalf("GOWP-REPLAY-FAIL input %q: the first chunk is %q (error %v), want the statement continued after the operator, %q", src, c0, err0, "x "+op+sep+"\ny\n")
			}
		}
	}
	// the wrapper used by the REPL hands back the last chunk of an input without a final newline
	{
		g := NewGlobals()
		g.Readline = MakeBufReadline(bufio.NewReader(strings.NewReader("a = 1\nb = 2")))
		c0, _ := g.ReadMultiline(0, "")
		c1, _ := g.ReadMultiline(0, "")
		if c0 != "a = 1\n" || c1 != "b = 2" {
			t.Fatalf("GOWP-REPLAY-FAIL Globals.ReadMultiline on %q: chunks %q and %q, want %q and %q", "a = 1\nb = 2", c0, c1, "a = 1\n", "b = 2")
		}
	}
	if tried < 100 {
		t.Fatalf("only %d lines tried", tried)
	}
}
`

func init() {
	replayers["C26|*"] = &replayer{pkg: "base", test: "TestGowpReplayC26", kind: "search", source: func(map[string]string, string) string { return replayC26 }}
	replayers["base.ReadMultiline"] = &replayer{pkg: "base", test: "TestGowpReplayC26", kind: "search", source: func(map[string]string, string) string { return replayC26 }}
}
