package main

// Replay for the type-switch case table (C05): type switches whose first case is a non-empty
// interface that a later concrete case type also implements (fmt.Stringer before time.Duration,
// error before a concrete error type); the first matching case in source order must be taken, as
// in compiled Go.

const replayC05TypeSwitch = `package fast

import (
	"fmt"
	"testing"
	"time"
)

func gowpClassify(list []interface{}) string {
	trace := ""
	for i, x := range list {
		switch v := x.(type) {
		case fmt.Stringer:
			trace += fmt.Sprint(i, ":stringer=", v.String(), ";")
		case time.Duration:
			trace += fmt.Sprint(i, ":duration=", int64(v), ";")
		case int:
			trace += fmt.Sprint(i, ":int=", v, ";")
		case time.Month:
			trace += fmt.Sprint(i, ":month=", int(v), ";")
		case error:
			trace += fmt.Sprint(i, ":error=", v.Error(), ";")
		default:
			trace += fmt.Sprint(i, ":other;")
		}
	}
	return trace
}

const gowpClassifySrc = ` + "`" + `
import ("fmt"; "time")
func gowpClassify(list []interface{}) string {
	trace := ""
	for i, x := range list {
		switch v := x.(type) {
		case fmt.Stringer:
			trace += fmt.Sprint(i, ":stringer=", v.String(), ";")
		case time.Duration:
			trace += fmt.Sprint(i, ":duration=", int64(v), ";")
		case int:
			trace += fmt.Sprint(i, ":int=", v, ";")
		case time.Month:
			trace += fmt.Sprint(i, ":month=", int(v), ";")
		case error:
			trace += fmt.Sprint(i, ":error=", v.Error(), ";")
		default:
			trace += fmt.Sprint(i, ":other;")
		}
	}
	return trace
}
` + "`" + `

func TestGowpReplayC05TypeSwitch(t *testing.T) {
	ir := New()
	func() {
		defer func() {
			if r := recover(); r != nil {
				t.Fatalf("GOWP-REPLAY-FAIL the type switch does not compile: %v", r)
			}
		}()
		ir.Eval(gowpClassifySrc)
	}()
	list := []interface{}{time.Duration(5), 7, time.Month(3), fmt.Errorf("e"), "s", time.Second, nil, 3.5}
	ir.DeclVar("gowpList", nil, list)
	var got string
	func() {
		defer func() {
			if r := recover(); r != nil {
				got = fmt.Sprint("PANIC: ", r)
			}
		}()
		vals, _ := ir.Eval("gowpClassify(gowpList)")
		got = vals[0].Interface().(string)
	}()
	if want := gowpClassify(list); got != want {
		t.Fatalf("GOWP-REPLAY-FAIL a type switch with the cases fmt.Stringer, time.Duration, int, time.Month, error, default over %v: interpreted %q, compiled Go %q", list, got, want)
	}
}
`

func init() {
	replayers["fast.(*typecaseHelper).add"] = &replayer{pkg: "fast", test: "TestGowpReplayC05TypeSwitch", kind: "differential", source: func(map[string]string, string) string { return replayC05TypeSwitch }}
}
