// Package load builds typed SSA for packages of /repo (working tree, build tag verif) and reads
// their contract side-car files.
package load

import (
	"fmt"
	"go/types"
	"os"
	"path/filepath"
	"strings"
	"time"

	"golang.org/x/tools/go/packages"
	"golang.org/x/tools/go/ssa"
	"golang.org/x/tools/go/ssa/ssautil"

	"gowp/spec"
)

const ModulePath = "github.com/cosmos72/gomacro"

type Program struct {
	Repo     string
	Prog     *ssa.Program
	Pkgs     map[string]*ssa.Package // by import path
	Typed    map[string]*packages.Package
	Specs    map[string]*spec.DB
	LoadSecs float64
}

func RepoDir() string {
	if d := os.Getenv("GOWP_REPO"); d != "" {
		return d
	}
	return "/repo"
}

// Load type-checks the given package directories (relative to the repo root, e.g. "./fast").
func Load(patterns ...string) (*Program, error) {
	t0 := time.Now()
	repo := RepoDir()
	cfg := &packages.Config{
		Mode:       packages.LoadAllSyntax,
		Dir:        repo,
		BuildFlags: []string{"-tags=verif"},
		Env:        append(os.Environ(), "GOFLAGS=-mod=mod", "GOPROXY=off", "GOSUMDB=off", "GOTOOLCHAIN=local"),
	}
	pkgs, err := packages.Load(cfg, patterns...)
	if err != nil {
		return nil, err
	}
	var errs []string
	packages.Visit(pkgs, nil, func(p *packages.Package) {
		for _, e := range p.Errors {
			if strings.HasPrefix(p.PkgPath, ModulePath) {
				errs = append(errs, e.Error())
			}
		}
	})
	if len(errs) > 0 {
		return nil, fmt.Errorf("package errors:\n%s", strings.Join(errs, "\n"))
	}
	prog, spkgs := ssautil.AllPackages(pkgs, ssa.GlobalDebug|ssa.BareInits)
	prog.Build()
	p := &Program{Repo: repo, Prog: prog, Pkgs: map[string]*ssa.Package{}, Typed: map[string]*packages.Package{}, Specs: map[string]*spec.DB{}}
	for i, sp := range spkgs {
		if sp == nil {
			return nil, fmt.Errorf("no SSA for %s", pkgs[i].PkgPath)
		}
	}
	for _, sp := range prog.AllPackages() {
		path := sp.Pkg.Path()
		p.Pkgs[path] = sp
		if strings.HasPrefix(path, ModulePath) {
			rel := strings.TrimPrefix(strings.TrimPrefix(path, ModulePath), "/")
			dir := filepath.Join(repo, rel)
			db, err := spec.Load(dir, rel)
			if err != nil {
				return nil, err
			}
			if len(db.Funcs)+len(db.Preds) > 0 {
				p.Specs[path] = db
			}
		}
	}
	packages.Visit(pkgs, nil, func(pk *packages.Package) { p.Typed[pk.PkgPath] = pk })
	p.LoadSecs = time.Since(t0).Seconds()
	return p, nil
}

// Func finds a function or method by its contract-file name inside a package given by its
// path relative to the module ("fast", "base/dep").
func (p *Program) Func(rel, name string) *ssa.Function {
	path := ModulePath
	if rel != "" && rel != "." {
		path += "/" + rel
	}
	sp := p.Pkgs[path]
	if sp == nil {
		return nil
	}
	if k := strings.Index(name, "$"); k > 0 {
		// function literal: Parent$N (ordinals as numbered by go/ssa)
		parent := p.Func(rel, name[:k])
		for parent != nil {
			rest := name[k+1:]
			n := rest
			if j := strings.Index(rest, "$"); j >= 0 {
				n = rest[:j]
			}
			var next *ssa.Function
			for _, a := range parent.AnonFuncs {
				if strings.TrimPrefix(a.Name(), parent.Name()+"$") == n {
					next = a
				}
			}
			if next == nil || n == rest {
				return next
			}
			parent = next
			k += len(n) + 1
		}
		return nil
	}
	if !strings.HasPrefix(name, "(") {
		return sp.Func(name)
	}
	k := strings.Index(name, ")")
	recv := name[1:k]
	meth := strings.TrimPrefix(name[k+1:], ".")
	ptr := strings.HasPrefix(recv, "*")
	recv = strings.TrimPrefix(recv, "*")
	tm, ok := sp.Members[recv].(*ssa.Type)
	if !ok {
		return nil
	}
	var t types.Type = tm.Type()
	if ptr {
		t = types.NewPointer(t)
	}
	sel := p.Prog.MethodSets.MethodSet(t).Lookup(sp.Pkg, meth)
	if sel == nil {
		return nil
	}
	return p.Prog.MethodValue(sel)
}
