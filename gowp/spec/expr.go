// Package spec parses the contract side-car files (//@ lines) and their expression language.
package spec

import (
	"fmt"
	"strings"
	"unicode"
)

type Expr interface{ String() string }

type Ident struct{ Name string }
type Lit struct {
	Kind string // int, string, char, float
	Val  string
}
type Unary struct {
	Op string
	X  Expr
}
type Binary struct {
	Op   string
	X, Y Expr
}
type Call struct {
	Fun  Expr
	Args []Expr
}
type Index struct{ X, I Expr }
type SliceE struct{ X, Lo, Hi Expr }
type Sel struct {
	X    Expr
	Name string
}
type Quant struct {
	Forall bool
	Vars   []string
	Lo, Hi Expr // range for all vars (half-open); nil Lo means "typed" quantification, Hi holds type name as Ident
	Body   Expr
}
type Cond struct{ C, X, Y Expr } // c ? x : y

func (e *Ident) String() string  { return e.Name }
func (e *Lit) String() string    { return e.Val }
func (e *Unary) String() string  { return e.Op + e.X.String() }
func (e *Binary) String() string { return "(" + e.X.String() + " " + e.Op + " " + e.Y.String() + ")" }
func (e *Call) String() string {
	var a []string
	for _, x := range e.Args {
		a = append(a, x.String())
	}
	return e.Fun.String() + "(" + strings.Join(a, ", ") + ")"
}
func (e *Index) String() string { return e.X.String() + "[" + e.I.String() + "]" }
func (e *SliceE) String() string {
	s := e.X.String() + "["
	if e.Lo != nil {
		s += e.Lo.String()
	}
	s += ":"
	if e.Hi != nil {
		s += e.Hi.String()
	}
	return s + "]"
}
func (e *Sel) String() string { return e.X.String() + "." + e.Name }
func (e *Quant) String() string {
	q := "exists"
	if e.Forall {
		q = "forall"
	}
	if e.Lo == nil {
		return fmt.Sprintf("(%s %s %s :: %s)", q, strings.Join(e.Vars, ", "), e.Hi, e.Body)
	}
	return fmt.Sprintf("(%s %s in %s..%s :: %s)", q, strings.Join(e.Vars, ", "), e.Lo, e.Hi, e.Body)
}
func (e *Cond) String() string {
	return "(" + e.C.String() + " ? " + e.X.String() + " : " + e.Y.String() + ")"
}

// ---------- lexer

type tok struct {
	k string // id, int, float, str, char, op, eof
	s string
}

func lex(src string) ([]tok, error) {
	var out []tok
	i := 0
	n := len(src)
	for i < n {
		c := src[i]
		switch {
		case c == ' ' || c == '\t' || c == '\n' || c == '\r':
			i++
		case c == '_' || unicode.IsLetter(rune(c)):
			j := i
			for j < n && (src[j] == '_' || unicode.IsLetter(rune(src[j])) || unicode.IsDigit(rune(src[j]))) {
				j++
			}
			out = append(out, tok{"id", src[i:j]})
			i = j
		case c >= '0' && c <= '9':
			j := i
			isf := false
			if c == '0' && j+1 < n && (src[j+1] == 'x' || src[j+1] == 'X') {
				j += 2
				for j < n && strings.ContainsRune("0123456789abcdefABCDEF_", rune(src[j])) {
					j++
				}
			} else {
				for j < n && (src[j] >= '0' && src[j] <= '9' || src[j] == '_') {
					j++
				}
				// a '.' followed by a digit is a fraction; ".." is the range operator
				if j+1 < n && src[j] == '.' && src[j+1] >= '0' && src[j+1] <= '9' {
					isf = true
					j++
					for j < n && src[j] >= '0' && src[j] <= '9' {
						j++
					}
				}
			}
			if isf {
				out = append(out, tok{"float", src[i:j]})
			} else {
				out = append(out, tok{"int", strings.ReplaceAll(src[i:j], "_", "")})
			}
			i = j
		case c == '"':
			j := i + 1
			for j < n && src[j] != '"' {
				if src[j] == '\\' {
					j++
				}
				j++
			}
			if j >= n {
				return nil, fmt.Errorf("unterminated string")
			}
			out = append(out, tok{"str", src[i : j+1]})
			i = j + 1
		case c == '\'':
			j := i + 1
			for j < n && src[j] != '\'' {
				if src[j] == '\\' {
					j++
				}
				j++
			}
			if j >= n {
				return nil, fmt.Errorf("unterminated char")
			}
			out = append(out, tok{"char", src[i : j+1]})
			i = j + 1
		default:
			ops := []string{"==>", "<==>", "&&", "||", "==", "!=", "<=", ">=", "<<", ">>", "&^", "..", "::", ":="}
			matched := ""
			for _, o := range ops {
				if strings.HasPrefix(src[i:], o) && len(o) > len(matched) {
					matched = o
				}
			}
			if matched == "" {
				matched = string(c)
				if !strings.ContainsRune("+-*/%&|^!<>()[]{}.,:?=#@", rune(c)) {
					return nil, fmt.Errorf("unexpected character %q", c)
				}
			}
			out = append(out, tok{"op", matched})
			i += len(matched)
		}
	}
	out = append(out, tok{"eof", ""})
	return out, nil
}

type parser struct {
	toks []tok
	p    int
}

func (p *parser) peek() tok { return p.toks[p.p] }
func (p *parser) next() tok { t := p.toks[p.p]; p.p++; return t }
func (p *parser) isOp(s string) bool {
	t := p.peek()
	return t.k == "op" && t.s == s
}
func (p *parser) isID(s string) bool {
	t := p.peek()
	return t.k == "id" && t.s == s
}
func (p *parser) expectOp(s string) error {
	if !p.isOp(s) {
		return fmt.Errorf("expected %q, found %q", s, p.peek().s)
	}
	p.p++
	return nil
}

// ParseExpr parses one expression of the contract language.
func ParseExpr(src string) (Expr, error) {
	toks, err := lex(src)
	if err != nil {
		return nil, fmt.Errorf("%v in %q", err, src)
	}
	p := &parser{toks: toks}
	e, err := p.expr()
	if err != nil {
		return nil, fmt.Errorf("%v in %q", err, src)
	}
	if p.peek().k != "eof" {
		return nil, fmt.Errorf("trailing %q in %q", p.peek().s, src)
	}
	return e, nil
}

func (p *parser) expr() (Expr, error) {
	if p.isID("forall") || p.isID("exists") {
		q := &Quant{Forall: p.next().s == "forall"}
		for {
			t := p.next()
			if t.k != "id" {
				return nil, fmt.Errorf("quantifier variable expected, found %q", t.s)
			}
			q.Vars = append(q.Vars, t.s)
			if p.isOp(",") {
				p.next()
				continue
			}
			break
		}
		if p.isID("in") {
			p.next()
			lo, err := p.binary(3)
			if err != nil {
				return nil, err
			}
			if err := p.expectOp(".."); err != nil {
				return nil, err
			}
			hi, err := p.binary(3)
			if err != nil {
				return nil, err
			}
			q.Lo, q.Hi = lo, hi
		} else {
			// typed: forall x T :: body
			star := ""
			if p.isOp("*") {
				p.next()
				star = "*"
			}
			t := p.next()
			if t.k != "id" {
				return nil, fmt.Errorf("'in' or a type expected after quantifier variables")
			}
			name := t.s
			if p.isOp(".") {
				p.next()
				t2 := p.next()
				if t2.k != "id" {
					return nil, fmt.Errorf("type name expected after %s.", name)
				}
				name += "." + t2.s
			}
			q.Hi = &Ident{star + name}
		}
		if err := p.expectOp("::"); err != nil {
			return nil, err
		}
		b, err := p.expr()
		if err != nil {
			return nil, err
		}
		q.Body = b
		return q, nil
	}
	return p.implies()
}

func (p *parser) implies() (Expr, error) {
	x, err := p.binary(0)
	if err != nil {
		return nil, err
	}
	if p.isOp("?") {
		p.next()
		a, err := p.expr()
		if err != nil {
			return nil, err
		}
		if err := p.expectOp(":"); err != nil {
			return nil, err
		}
		b, err := p.expr()
		if err != nil {
			return nil, err
		}
		return &Cond{x, a, b}, nil
	}
	if p.isOp("==>") {
		p.next()
		y, err := p.expr() // right assoc, and allows a quantifier on the right
		if err != nil {
			return nil, err
		}
		return &Binary{"==>", x, y}, nil
	}
	if p.isOp("<==>") {
		p.next()
		y, err := p.binary(0)
		if err != nil {
			return nil, err
		}
		return &Binary{"<==>", x, y}, nil
	}
	return x, nil
}

var prec = map[string]int{
	"||": 1, "&&": 2,
	"==": 3, "!=": 3, "<": 3, "<=": 3, ">": 3, ">=": 3,
	"+": 4, "-": 4, "|": 4, "^": 4,
	"*": 5, "/": 5, "%": 5, "<<": 5, ">>": 5, "&": 5, "&^": 5,
}

func (p *parser) binary(min int) (Expr, error) {
	x, err := p.unary()
	if err != nil {
		return nil, err
	}
	for {
		t := p.peek()
		if t.k != "op" {
			return x, nil
		}
		pr, ok := prec[t.s]
		if !ok || pr <= min {
			return x, nil
		}
		p.next()
		var y Expr
		if (p.isID("forall") || p.isID("exists")) && pr <= 2 {
			y, err = p.expr()
		} else {
			y, err = p.binary(pr)
		}
		if err != nil {
			return nil, err
		}
		x = &Binary{t.s, x, y}
	}
}

func (p *parser) unary() (Expr, error) {
	t := p.peek()
	if t.k == "op" && (t.s == "!" || t.s == "-" || t.s == "^" || t.s == "&" || t.s == "*") {
		p.next()
		x, err := p.unary()
		if err != nil {
			return nil, err
		}
		return &Unary{t.s, x}, nil
	}
	return p.postfix()
}

func (p *parser) postfix() (Expr, error) {
	x, err := p.primary()
	if err != nil {
		return nil, err
	}
	for {
		switch {
		case p.isOp("."):
			p.next()
			t := p.next()
			if t.k != "id" {
				return nil, fmt.Errorf("field name expected after '.'")
			}
			x = &Sel{x, t.s}
		case p.isOp("("):
			p.next()
			var args []Expr
			for !p.isOp(")") {
				a, err := p.expr()
				if err != nil {
					return nil, err
				}
				args = append(args, a)
				if p.isOp(",") {
					p.next()
				} else {
					break
				}
			}
			if err := p.expectOp(")"); err != nil {
				return nil, err
			}
			x = &Call{x, args}
		case p.isOp("["):
			p.next()
			var lo, hi Expr
			if !p.isOp(":") {
				lo, err = p.expr()
				if err != nil {
					return nil, err
				}
			}
			if p.isOp(":") {
				p.next()
				if !p.isOp("]") {
					hi, err = p.expr()
					if err != nil {
						return nil, err
					}
				}
				if err := p.expectOp("]"); err != nil {
					return nil, err
				}
				x = &SliceE{x, lo, hi}
			} else {
				if err := p.expectOp("]"); err != nil {
					return nil, err
				}
				x = &Index{x, lo}
			}
		default:
			return x, nil
		}
	}
}

func (p *parser) primary() (Expr, error) {
	t := p.next()
	switch t.k {
	case "id":
		return &Ident{t.s}, nil
	case "int", "float":
		return &Lit{t.k, t.s}, nil
	case "str", "char":
		return &Lit{t.k, t.s}, nil
	case "op":
		if t.s == "(" {
			e, err := p.expr()
			if err != nil {
				return nil, err
			}
			if err := p.expectOp(")"); err != nil {
				return nil, err
			}
			return e, nil
		}
	}
	return nil, fmt.Errorf("unexpected %q", t.s)
}
