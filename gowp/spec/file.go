package spec

import (
	"fmt"
	"os"
	"path/filepath"
	"sort"
	"strconv"
	"strings"
)

// Clause is one contract line.
type Clause struct {
	Kind string // requires ensures modifies invariant decreases on_exit on_panic assume hint let ...
	Loop int    // loop ordinal for invariant/decreases (0 = function level)
	Name string // for let / hint / named clauses
	Expr Expr
	List []Expr // modifies
	Text string
	File string
	Line int
}

type FuncSpec struct {
	Pkg     string // package path suffix (directory under /repo)
	Name    string // normalised: f, (T).m, (*T).m
	Clauses []*Clause
	Results []string          // result names given in the contract header
	Flags   map[string]bool   // inline, safety, noreturn, trusted, pure
	Attrs   map[string]string // free-form key=value attributes (family parameters etc.)
	File    string
	Line    int
}

func (f *FuncSpec) Of(kind string) []*Clause {
	var out []*Clause
	for _, c := range f.Clauses {
		if c.Kind == kind {
			out = append(out, c)
		}
	}
	return out
}

type Pred struct {
	Name   string
	Params []string
	Body   Expr
	Text   string
}

// DB holds every contract of one package.
type DB struct {
	Pkg    string
	Funcs  map[string]*FuncSpec
	Preds  map[string]*Pred
	Order  []string
	Closed []string // interface types resolved by case split over the implementing types of the module
	Initial     []string // package variables with a known, never changing initial value
	Transparent []string
	UsedBy []string // package usedby P...: the only packages whose verification uses these contracts
	Assume []string // raw text of every assume / trusted line (mechanical scan for the evidence)
}

var clauseKW = map[string]bool{
	"requires": true, "ensures": true, "modifies": true, "loop": true, "decreases": true,
	"inline": true, "safety": true, "noreturn": true, "trusted": true, "pure": true,
	"on_exit": true, "on_panic": true, "assume": true, "let": true, "hint": true,
	"attr": true, "closure": true, "panics_only_if": true, "never_panics": true, "reach": true,
	"ghost": true, "callee_may_panic": true, "opaque_effects": true, "never_errors": true,
	"before": true, "toplevel": true,
}
var topKW = map[string]bool{"closed": true, "initial": true, "func": true, "pred": true, "package": true, "axiom": true, "lemma": true, "functype": true, "writers": true}

// Load reads every zz_verif_*.go file in dir.
func Load(dir, pkg string) (*DB, error) {
	db := &DB{Pkg: pkg, Funcs: map[string]*FuncSpec{}, Preds: map[string]*Pred{}}
	files, _ := filepath.Glob(filepath.Join(dir, "zz_verif_*.go"))
	sort.Strings(files)
	for _, f := range files {
		if err := db.loadFile(f); err != nil {
			return nil, err
		}
	}
	return db, nil
}

type rawLine struct {
	text string
	line int
}

func (db *DB) loadFile(path string) error {
	data, err := os.ReadFile(path)
	if err != nil {
		return err
	}
	var lines []rawLine
	for i, l := range strings.Split(string(data), "\n") {
		t := strings.TrimSpace(l)
		if strings.HasPrefix(t, "//@") {
			body := strings.TrimPrefix(t, "//@")
			// strip trailing comment introduced by " // "
			if k := strings.Index(body, " // "); k >= 0 {
				body = body[:k]
			}
			if strings.TrimSpace(body) == "" {
				continue
			}
			lines = append(lines, rawLine{strings.TrimSpace(body), i + 1})
		}
	}
	// group continuation lines
	type item struct {
		text string
		line int
	}
	var items []item
	for _, l := range lines {
		first := strings.Fields(l.text)[0]
		if clauseKW[first] || topKW[first] {
			items = append(items, item{l.text, l.line})
		} else if len(items) > 0 {
			items[len(items)-1].text += " " + l.text
		} else {
			return fmt.Errorf("%s:%d: contract line outside any declaration: %s", path, l.line, l.text)
		}
	}
	var cur *FuncSpec
	for _, it := range items {
		fields := strings.Fields(it.text)
		kw := fields[0]
		rest := strings.TrimSpace(strings.TrimPrefix(it.text, kw))
		fail := func(err error) error { return fmt.Errorf("%s:%d: %v", path, it.line, err) }
		switch kw {
		case "initial":
			// initial G, H: package variables read as the constants their initialisers store
			cur = nil
			for _, n := range strings.Split(rest, ",") {
				if n = strings.TrimSpace(n); n != "" {
					db.Initial = append(db.Initial, n)
				}
			}
		case "closed":
			// closed I, J: every value of the interface types I, J of this package has one of the
			// types of this module that implement it (method calls are resolved by case split)
			cur = nil
			for _, n := range strings.Split(rest, ",") {
				if n = strings.TrimSpace(n); n != "" {
					db.Closed = append(db.Closed, n)
				}
			}
			db.Assume = append(db.Assume, "closed world: "+rest)
		case "package":
			cur = nil
			// package usedby P Q ...: see sym.(*Exec).usable
			if fs := strings.Fields(rest); len(fs) > 1 && fs[0] == "usedby" {
				db.UsedBy = append(db.UsedBy, fs[1:]...)
			}
			// package transparent P ...: while this package is verified, the struct types of the
			// (non-module) packages P are modelled field by field, not as opaque values
			if fs := strings.Fields(rest); len(fs) > 1 && fs[0] == "transparent" {
				db.Transparent = append(db.Transparent, fs[1:]...)
			}
		case "pred":
			k := strings.Index(rest, ":=")
			if k < 0 {
				return fail(fmt.Errorf("pred needs ':='"))
			}
			head, body := strings.TrimSpace(rest[:k]), strings.TrimSpace(rest[k+2:])
			op := strings.Index(head, "(")
			if op < 0 || !strings.HasSuffix(head, ")") {
				return fail(fmt.Errorf("pred head must be name(params)"))
			}
			p := &Pred{Name: strings.TrimSpace(head[:op]), Text: it.text}
			for _, a := range strings.Split(head[op+1:len(head)-1], ",") {
				a = strings.TrimSpace(a)
				if a == "" {
					continue
				}
				p.Params = append(p.Params, strings.Fields(a)[0])
			}
			e, err := ParseExpr(body)
			if err != nil {
				return fail(err)
			}
			p.Body = e
			db.Preds[p.Name] = p
			cur = nil
		case "lemma":
			// lemma name(p1 type1, p2 type2, ...): a code-free obligation over the contracts' vocabulary
			op := strings.Index(rest, "(")
			cl := strings.LastIndex(rest, ")")
			if op < 0 || cl < op {
				return fail(fmt.Errorf("lemma name(params)"))
			}
			lname := "lemma:" + strings.TrimSpace(rest[:op])
			cur = &FuncSpec{Pkg: db.Pkg, Name: lname, Flags: map[string]bool{"lemma": true}, Attrs: map[string]string{}, File: path, Line: it.line}
			for _, pa := range strings.Split(rest[op+1:cl], ",") {
				fs := strings.Fields(pa)
				if len(fs) == 2 {
					cur.Results = append(cur.Results, fs[0]+" "+fs[1])
				} else if len(fs) != 0 {
					return fail(fmt.Errorf("lemma parameter must be 'name type': %q", pa))
				}
			}
			if _, dup := db.Funcs[lname]; dup {
				return fail(fmt.Errorf("duplicate lemma %s", lname))
			}
			db.Funcs[lname] = cur
			db.Order = append(db.Order, lname)
		case "writers":
			// writers T.Field: f, (*T).m, g$1 ...  -- the only functions of the package that may write the field
			k := strings.Index(rest, ":")
			if k < 0 {
				return fail(fmt.Errorf("writers Type.Field: functions"))
			}
			wname := "writers:" + strings.TrimSpace(rest[:k])
			cur = &FuncSpec{Pkg: db.Pkg, Name: wname, Flags: map[string]bool{"writers": true}, Attrs: map[string]string{}, File: path, Line: it.line}
			var by []string
			for _, w := range strings.Split(rest[k+1:], ",") {
				if w = strings.TrimSpace(w); w != "" {
					by = append(by, w)
				}
			}
			cur.Attrs["by"] = strings.Join(by, ";")
			db.Funcs[wname] = cur
			db.Order = append(db.Order, wname)
			cur = nil
		case "functype":
			// functype Name(params) results: an ASSUMED contract of every value of the named function
			// type (the engine cannot see the code behind a function value); only ensures clauses
			op := strings.Index(rest, "(")
			cl := strings.Index(rest, ")")
			if op < 0 || cl < op {
				return fail(fmt.Errorf("functype Name(params) results"))
			}
			tname := "type:" + strings.TrimSpace(rest[:op])
			cur = &FuncSpec{Pkg: db.Pkg, Name: tname, Flags: map[string]bool{"trusted": true}, Attrs: map[string]string{}, File: path, Line: it.line}
			var ps []string
			for _, pa := range strings.Split(rest[op+1:cl], ",") {
				if pa = strings.TrimSpace(pa); pa != "" {
					ps = append(ps, pa)
				}
			}
			cur.Attrs["params"] = strings.Join(ps, ",")
			for _, ra := range strings.Split(rest[cl+1:], ",") {
				if ra = strings.TrimSpace(ra); ra != "" {
					cur.Results = append(cur.Results, ra)
				}
			}
			db.Funcs[tname] = cur
			db.Order = append(db.Order, tname)
			db.Assume = append(db.Assume, "assumed contract of every value of function type "+strings.TrimSpace(rest[:op]))
		case "func":
			name := rest
			// drop optional parameter/result lists: keep up to the method name
			name = normaliseFuncName(name)
			cur = &FuncSpec{Pkg: db.Pkg, Name: name, Flags: map[string]bool{}, Attrs: map[string]string{}, File: path, Line: it.line}
			cur.Results = resultNames(rest)
			if _, dup := db.Funcs[name]; dup {
				return fail(fmt.Errorf("duplicate contract for %s", name))
			}
			db.Funcs[name] = cur
			db.Order = append(db.Order, name)
		default:
			if cur == nil {
				return fail(fmt.Errorf("clause %q outside a func", kw))
			}
			c := &Clause{Kind: kw, Text: rest, File: path, Line: it.line}
			switch kw {
			case "inline", "safety", "noreturn", "trusted", "pure", "never_panics", "callee_may_panic", "opaque_effects", "never_errors", "toplevel":
				cur.Flags[kw] = true
				if kw == "trusted" {
					db.Assume = append(db.Assume, cur.Name+": trusted contract")
				}
				continue
			case "attr":
				for _, kv := range strings.Fields(rest) {
					if k := strings.Index(kv, "="); k > 0 {
						cur.Attrs[kv[:k]] = kv[k+1:]
					} else {
						cur.Attrs[kv] = "true"
					}
				}
				continue
			case "loop":
				if len(fields) < 3 {
					return fail(fmt.Errorf("loop N invariant|decreases expr"))
				}
				n, err := strconv.Atoi(strings.TrimSuffix(fields[1], ":"))
				if fields[1] == "*" {
					n, err = -1, nil // every loop of the function
				}
				if err != nil {
					return fail(err)
				}
				c.Loop = n
				c.Kind = fields[2]
				if c.Kind != "invariant" && c.Kind != "decreases" && c.Kind != "step" {
					return fail(fmt.Errorf("loop clause must be invariant, decreases or step"))
				}
				idx := strings.Index(it.text, fields[2])
				c.Text = strings.TrimSpace(it.text[idx+len(fields[2]):])
				e, err := ParseExpr(c.Text)
				if err != nil {
					return fail(err)
				}
				c.Expr = e
			case "modifies":
				for _, part := range splitTop(rest) {
					e, err := ParseExpr(part)
					if err != nil {
						return fail(err)
					}
					c.List = append(c.List, e)
				}
			case "let":
				k := strings.Index(rest, "=")
				if k < 0 {
					return fail(fmt.Errorf("let name = expr"))
				}
				c.Name = strings.TrimSpace(rest[:k])
				e, err := ParseExpr(rest[k+1:])
				if err != nil {
					return fail(err)
				}
				c.Expr = e
			case "before":
				// before <callee>: expr   -- asserted in the caller's scope at every static call of callee
				k := strings.Index(rest, ": ")
				if k < 0 {
					return fail(fmt.Errorf("before <callee>: expr"))
				}
				c.Name = strings.TrimSpace(rest[:k])
				c.Text = strings.TrimSpace(rest[k+2:])
				e, err := ParseExpr(c.Text)
				if err != nil {
					return fail(err)
				}
				c.Expr = e
			case "hint", "closure", "ghost":
				// free text handled by the engine
			default:
				e, err := ParseExpr(rest)
				if err != nil {
					return fail(err)
				}
				c.Expr = e
				if kw == "assume" {
					db.Assume = append(db.Assume, cur.Name+": assume "+rest)
				}
			}
			cur.Clauses = append(cur.Clauses, c)
		}
	}
	return nil
}

func splitTop(s string) []string {
	var out []string
	depth := 0
	start := 0
	for i, c := range s {
		switch c {
		case '(', '[':
			depth++
		case ')', ']':
			depth--
		case ',':
			if depth == 0 {
				out = append(out, strings.TrimSpace(s[start:i]))
				start = i + 1
			}
		}
	}
	if strings.TrimSpace(s[start:]) != "" {
		out = append(out, strings.TrimSpace(s[start:]))
	}
	return out
}

// normaliseFuncName turns "(*Comp).Add(node, xe, ye) ret" into "(*Comp).Add".
func normaliseFuncName(s string) string {
	s = strings.TrimSpace(s)
	if strings.HasPrefix(s, "(") {
		k := strings.Index(s, ")")
		recv := s[:k+1]
		rest := s[k+1:]
		rest = strings.TrimPrefix(rest, ".")
		name := rest
		if j := strings.IndexAny(rest, "( \t"); j >= 0 {
			name = rest[:j]
		}
		return recv + "." + name
	}
	if j := strings.IndexAny(s, "( \t"); j >= 0 {
		s = s[:j]
	}
	if k := strings.Index(s, "."); k > 0 {
		return "(" + s[:k] + ")." + s[k+1:]
	}
	return s
}

// resultNames extracts the result names of a contract header:
// "f(a, b) (pos, found)" -> [pos found]; "(*T).m(a) ret" -> [ret].
func resultNames(s string) []string {
	s = strings.TrimSpace(s)
	if strings.HasPrefix(s, "(") {
		s = s[strings.Index(s, ")")+1:]
	}
	k := strings.Index(s, "(")
	if k < 0 {
		return nil
	}
	depth := 0
	end := -1
	for i := k; i < len(s); i++ {
		if s[i] == '(' {
			depth++
		} else if s[i] == ')' {
			depth--
			if depth == 0 {
				end = i
				break
			}
		}
	}
	if end < 0 {
		return nil
	}
	rest := strings.TrimSpace(s[end+1:])
	rest = strings.Trim(rest, "()")
	var out []string
	for _, r := range strings.Split(rest, ",") {
		r = strings.TrimSpace(r)
		if r != "" {
			out = append(out, strings.Fields(r)[0])
		}
	}
	return out
}
