package sym

import "gowp/smt"

// registerReflectLib installs the assumed contracts of reflect / xreflect accessors (see reflectlib.go).
func (x *Exec) registerReflectLib() { x.registerReflect() }

// immutableGlobals are package-level variables of the standard library that are assigned once at
// init time and never again (assumed; listed in the trusted base).
var immutableGlobals = map[string]bool{"glob:io.EOF": true}

// factorPCs splits path conditions into their common conjuncts and the per-path remainders.
func (x *Exec) factorPCs(pcs []*smt.Term) (*smt.Term, []*smt.Term) {
	if len(pcs) == 0 {
		return x.B.True(), nil
	}
	count := map[int]int{}
	for _, pc := range pcs {
		seen := map[int]bool{}
		for _, c := range conjuncts(pc) {
			if !seen[c.ID] {
				seen[c.ID] = true
				count[c.ID]++
			}
		}
	}
	var common []*smt.Term
	isCommon := map[int]bool{}
	for _, c := range conjuncts(pcs[0]) {
		if count[c.ID] == len(pcs) && !isCommon[c.ID] {
			isCommon[c.ID] = true
			common = append(common, c)
		}
	}
	rests := make([]*smt.Term, len(pcs))
	for i, pc := range pcs {
		var r []*smt.Term
		for _, c := range conjuncts(pc) {
			if !isCommon[c.ID] {
				r = append(r, c)
			}
		}
		rests[i] = x.B.And(r...)
	}
	return x.B.And(common...), rests
}

// freeBound lists the bound variables that occur free in t (outside the quantifier declaring them).
func freeBound(t *smt.Term) []*smt.Term {
	declared := map[int]bool{}
	seen := map[int]bool{}
	var leaves []*smt.Term
	var walk func(t *smt.Term)
	walk = func(t *smt.Term) {
		if !t.HasBound && t.Op != "forall" && t.Op != "exists" || seen[t.ID] {
			return
		}
		seen[t.ID] = true
		if t.Op == "bound" {
			leaves = append(leaves, t)
		}
		for _, v := range t.Bound {
			declared[v.ID] = true
		}
		for _, a := range t.Args {
			walk(a)
		}
	}
	walk(t)
	var out []*smt.Term
	for _, l := range leaves {
		if !declared[l.ID] {
			out = append(out, l)
		}
	}
	return out
}

// elemAt reads contents[off+k] through a wrapper function whose third argument is the plain
// index: quantified facts "forall k :: P(s[k])" then have the trigger elem(contents, off, k),
// which matches every ground access s[e] whatever the shape of e (solvers re-associate sums, so
// a trigger containing off+k would not match reliably).
func (x *Exec) elemAt(contents, off, k *smt.Term) *smt.Term {
	B := x.B
	name := "elem_" + sortTag(contents.S.Elem)
	if _, ok := B.UFs[name]; !ok {
		a, o, i := B.BoundVar("ea", contents.S), B.BoundVar("eo", I64), B.BoundVar("ei", I64)
		B.UF(name, contents.S.Elem, a, o, i)
		B.AddAxiom(name, B.Forall([]*smt.Term{a, o, i}, B.Eq(B.UF(name, contents.S.Elem, a, o, i), B.Select(a, B.BVBin("bvadd", o, i)))))
	}
	return B.UF(name, contents.S.Elem, contents, off, k)
}
