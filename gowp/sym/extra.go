package sym

import (
	"go/types"
	"strings"

	"golang.org/x/tools/go/ssa"

	"gowp/smt"
)

// registerReflectLib installs the assumed contracts of reflect / xreflect accessors (see reflectlib.go).
func (x *Exec) registerReflectLib() { x.registerReflect() }

// immutableGlobals are package-level variables of the standard library that are assigned once at
// init time and never again (assumed; listed in the trusted base).
var immutableGlobals = map[string]bool{"glob:io.EOF": true}

// factorPCs splits path conditions into their common conjuncts and the per-path remainders.
func (x *Exec) factorPCs(pcs []*smt.Term) (*smt.Term, []*smt.Term) {
	if len(pcs) == 0 {
		return x.B.True(), nil
	}
	count := map[int]int{}
	for _, pc := range pcs {
		seen := map[int]bool{}
		for _, c := range conjuncts(pc) {
			if !seen[c.ID] {
				seen[c.ID] = true
				count[c.ID]++
			}
		}
	}
	var common []*smt.Term
	isCommon := map[int]bool{}
	for _, c := range conjuncts(pcs[0]) {
		if count[c.ID] == len(pcs) && !isCommon[c.ID] {
			isCommon[c.ID] = true
			common = append(common, c)
		}
	}
	rests := make([]*smt.Term, len(pcs))
	for i, pc := range pcs {
		var r []*smt.Term
		for _, c := range conjuncts(pc) {
			if !isCommon[c.ID] {
				r = append(r, c)
			}
		}
		rests[i] = x.B.And(r...)
	}
	return x.B.And(common...), rests
}

// splitSelector: two paths that split on a condition c are distinguished by c alone (what each
// path assumed afterwards need not be part of the selector of merged values).
func (x *Exec) splitSelector(pa, pb, fallback *smt.Term) *smt.Term {
	inB := map[int]bool{}
	for _, c := range conjuncts(pb) {
		inB[c.ID] = true
	}
	inA := map[int]bool{}
	for _, c := range conjuncts(pa) {
		inA[c.ID] = true
	}
	var fa, fb *smt.Term
	for _, c := range conjuncts(pa) {
		if !inB[c.ID] {
			fa = c
			break
		}
	}
	for _, c := range conjuncts(pb) {
		if !inA[c.ID] {
			fb = c
			break
		}
	}
	if fa != nil && fb != nil && x.B.Not(fa) == fb {
		return fa
	}
	return fallback
}

// freeBound lists the bound variables that occur free in t (outside the quantifier declaring them).
func freeBound(t *smt.Term) []*smt.Term {
	declared := map[int]bool{}
	seen := map[int]bool{}
	var leaves []*smt.Term
	var walk func(t *smt.Term)
	walk = func(t *smt.Term) {
		if !t.HasBound && t.Op != "forall" && t.Op != "exists" || seen[t.ID] {
			return
		}
		seen[t.ID] = true
		if t.Op == "bound" {
			leaves = append(leaves, t)
		}
		for _, v := range t.Bound {
			declared[v.ID] = true
		}
		for _, a := range t.Args {
			walk(a)
		}
	}
	walk(t)
	var out []*smt.Term
	for _, l := range leaves {
		if !declared[l.ID] {
			out = append(out, l)
		}
	}
	return out
}

// elemAt reads contents[off+k] through a wrapper function whose third argument is the plain
// index: quantified facts "forall k :: P(s[k])" then have the trigger elem(contents, off, k),
// which matches every ground access s[e] whatever the shape of e (solvers re-associate sums, so
// a trigger containing off+k would not match reliably).
func (x *Exec) elemAt(contents, off, k *smt.Term) *smt.Term {
	B := x.B
	name := "elem_" + sortTag(contents.S.Elem)
	if _, ok := B.UFs[name]; !ok {
		a, o, i := B.BoundVar("ea", contents.S), B.BoundVar("eo", I64), B.BoundVar("ei", I64)
		B.UF(name, contents.S.Elem, a, o, i)
		B.AddAxiom(name, B.Forall([]*smt.Term{a, o, i}, B.Eq(B.UF(name, contents.S.Elem, a, o, i), B.Select(a, B.BVBin("bvadd", o, i)))))
	}
	return B.UF(name, contents.S.Elem, contents, off, k)
}

func clipS(s string, n int) string {
	if len(s) > n {
		return s[:n] + "..."
	}
	return s
}

// Describe says how a callee is treated: contract, library model, inlined, or arbitrary.
func (x *Exec) Describe(fn *ssa.Function) string {
	if x.libModel(fn) != nil {
		return "[library model]"
	}
	if sp := x.specFor(fn); sp != nil {
		s := "[contract"
		for k := range sp.Flags {
			s += " " + k
		}
		return s + "]"
	}
	if len(fn.Blocks) > 0 && fn.Pkg != nil && strings.HasPrefix(fn.Pkg.Pkg.Path(), modulePath) && x.smallEnough(fn) {
		return "[inlined]"
	}
	return "[ARBITRARY]"
}

// simplifyUnder rewrites ite(c, a, b) nodes whose condition is decided by the conjuncts of the
// path condition pc (merged memory leaves such nodes behind on paths that already determine c).
func (x *Exec) simplifyUnder(pc, t *smt.Term) *smt.Term {
	have := map[int]bool{}
	for _, c := range conjuncts(pc) {
		have[c.ID] = true
	}
	B := x.B
	_, pins := propagate(pc)
	sub := map[*smt.Term]*smt.Term{}
	for _, c := range conjuncts(pc) {
		if c.Op == "=" && len(c.Args) == 2 {
			for i := 0; i < 2; i++ {
				if p, ok := pins[c.Args[i].ID]; ok && !c.Args[i].IsConst() {
					sub[c.Args[i]] = p
				}
			}
		}
	}
	decide := func(c *smt.Term) (bool, bool) {
		allTrue := true
		for _, k := range conjuncts(c) {
			if have[k.ID] {
				continue
			}
			if have[B.Not(k).ID] {
				return false, true
			}
			if len(sub) > 0 {
				ks := B.Subst(k, sub)
				if ks.IsTrue() {
					continue
				}
				if ks.IsFalse() {
					return false, true
				}
			}
			allTrue = false
		}
		if allTrue {
			return true, true
		}
		return false, false
	}
	memo := map[int]*smt.Term{}
	var rec func(t *smt.Term) *smt.Term
	rec = func(t *smt.Term) *smt.Term {
		if len(t.Args) == 0 {
			return t
		}
		if r, ok := memo[t.ID]; ok {
			return r
		}
		var r *smt.Term
		if t.Op == "ite" {
			if v, ok := decide(t.Args[0]); ok {
				if v {
					r = rec(t.Args[1])
				} else {
					r = rec(t.Args[2])
				}
				memo[t.ID] = r
				return r
			}
		}
		args := make([]*smt.Term, len(t.Args))
		ch := false
		for i, a := range t.Args {
			args[i] = rec(a)
			if args[i] != a {
				ch = true
			}
		}
		r = t
		if ch {
			r = B.Rebuild(t, args)
		}
		memo[t.ID] = r
		return r
	}
	return rec(t)
}

// fieldByName gives the address and type of a (possibly promoted) field of a heap object.
func (x *Exec) fieldByName(obj Value, objT types.Type, name string) (Value, types.Type) {
	su, ok := objT.Underlying().(*types.Struct)
	if !ok {
		specErr("%s is not a struct", objT)
	}
	path := findField(su, name)
	if path == nil {
		specErr("type %s has no field %s", objT, name)
	}
	cur := obj
	curT := objT
	for _, idx := range path {
		fld := curT.Underlying().(*types.Struct).Field(idx)
		cur = x.fieldAddr(cur, curT, idx)
		curT = fld.Type()
	}
	return cur, curT
}
