package sym

import (
	"fmt"
	"go/constant"
	"go/token"
	"go/types"
	"os"
	"sort"
	"strings"
	"sync"

	"golang.org/x/tools/go/ssa"

	"gowp/smt"
	"gowp/spec"
)

// Obligation is one verification condition: Hyps /\ PC => Goal.
type Obligation struct {
	Name   string
	Kind   string // ensures requires@call invariant-entry invariant-preserved decreases safety frame reach ...
	Func   string
	Hyps   []*smt.Term
	PC     *smt.Term
	Goal   *smt.Term
	Text   string // source text of the clause
	Where  string // source position
	Expect string // "unsat" (valid) by default; "sat" for reachability (vacuity) checks
	Note   string
}

// Exec is one symbolic-execution session (one Builder; not safe for concurrent use).
type Exec struct {
	initv      *initInfo // initial values of package variables (initvals.go)
	hasInitial bool      // some contract file has an "initial" directive
	implIfaces map[string]types.Type
	implCache  map[string][]implCase
	RootPkg    string // package path of the function under verification (see usable)
	B          *smt.Builder
	Prog       *ssa.Program
	Specs      map[string]*spec.DB // by package path
	assumes    []*smt.Term
	Obls       []*Obligation
	havocN     int
	cellN      int
	fnIDs      map[*ssa.Function]*smt.Term
	idFn       map[*smt.Term]Value // function-id term -> *Closure / *FuncVal
	typeIDs    map[string]*smt.Term
	typeOf     map[int64]types.Type
	strs       map[string]*smt.Term
	depth      int
	Notes      map[string]bool // library specifications and assumptions actually used
	Unsup      []string        // unsupported constructs met (each makes the enclosing check undischarged)
	NoObl      int             // >0: obligations suppressed (while evaluating assumed contracts)
	prefix     string          // obligation name prefix (function under verification)
	sig        string          // path signature injected into obligation names
	oblN       map[string]int
	liveKey    string
	// hooks
	OnMakeClosure func(f *Frame, st *State, mc *ssa.MakeClosure, c *Closure)
	OnFuncValue   func(f *Frame, st *State, v *ssa.Function) // a function literal without captured variables is boxed
	OnTopReturn   func(f *Frame, r exitRec)                  // a normal return of the function under verification
	InlineAll     bool
	lib           map[string]*libFn
	strAx         bool
	closN         int
	qN            int
	Ghosts        map[string]GhostFn
	keySorts      map[string]*smt.Sort
	escaped       map[*Cell]bool
	shared        map[*Cell]bool // cells reachable by unknown code (state.go shareValue)
	capNames      map[string]TV  // "captures$name" -> true for the closure whose clause guards are being evaluated
	famSafety     bool           // safety obligations inside the closures being checked (family contract flagged "safety")
	fam           *famEnv
	famN          int
	curCallee     *ssa.Function // callee of the library model being applied
}

func NewExec(prog *ssa.Program, specs map[string]*spec.DB) *Exec {
	x := &Exec{B: smt.NewBuilder(), Prog: prog, Specs: specs,
		fnIDs: map[*ssa.Function]*smt.Term{}, idFn: map[*smt.Term]Value{}, typeIDs: map[string]*smt.Term{}, typeOf: map[int64]types.Type{},
		strs: map[string]*smt.Term{}, Notes: map[string]bool{}, oblN: map[string]int{}, Ghosts: map[string]GhostFn{}, keySorts: map[string]*smt.Sort{}, escaped: map[*Cell]bool{}, shared: map[*Cell]bool{}}
	x.initLib()
	x.registerGhosts()
	for _, db := range specs {
		if len(db.Initial) > 0 {
			x.hasInitial = true
		}
	}
	return x
}

func (x *Exec) note(s string) { x.Notes[s] = true }

// assumeGlobal records a fact that holds in every state (type invariants, axioms instances).
func (x *Exec) assumeGlobal(f *smt.Term) {
	if f.IsTrue() {
		return
	}
	if f.HasBound {
		// a fact about a term under a quantifier: assume its universal closure
		f = x.B.Forall(freeBound(f), f)
	}
	for _, a := range x.assumes {
		if a == f {
			return
		}
	}
	x.assumes = append(x.assumes, f)
}

func (x *Exec) oblige(kind, text, where string, st *State, goal *smt.Term) *Obligation {
	if x.NoObl > 0 {
		return nil
	}
	base := x.prefix
	if x.sig != "" {
		base += "{" + x.sig + "}"
	}
	base += "::" + kind
	x.oblN[base]++
	o := &Obligation{Name: fmt.Sprintf("%s#%d", base, x.oblN[base]), Kind: kind, Func: x.prefix, Hyps: append([]*smt.Term{}, x.assumes...), PC: st.PC, Goal: goal, Text: text, Where: where, Expect: "unsat"}
	x.Obls = append(x.Obls, o)
	return o
}

// ---------- function identities, type identities

func (x *Exec) funcID(fn *ssa.Function) *smt.Term {
	if t, ok := x.fnIDs[fn]; ok {
		return t
	}
	t := x.B.IntC(int64(1000 + len(x.fnIDs)))
	x.fnIDs[fn] = t
	return t
}

func (x *Exec) typeID(t types.Type) *smt.Term {
	k := typeKey(t)
	if id, ok := x.typeIDs[k]; ok {
		return id
	}
	n := int64(1 + len(x.typeIDs))
	id := x.B.IntC(n)
	x.typeIDs[k] = id
	x.typeOf[n] = t
	for name, J := range x.implIfaces {
		x.assumeGlobal(x.B.Eq(x.B.UF(name, smt.Bool, id), x.B.BoolC(types.Implements(t, J.Underlying().(*types.Interface)))))
	}
	return id
}

// FuncName normalises an ssa function name to the form used in contract files.
func FuncName(fn *ssa.Function) string {
	if fn.Parent() != nil {
		return FuncName(fn.Parent()) + "$" + strings.TrimPrefix(fn.Name(), fn.Parent().Name()+"$")
	}
	if recv := fn.Signature.Recv(); recv != nil {
		t := recv.Type()
		star := ""
		if p, ok := t.(*types.Pointer); ok {
			star = "*"
			t = p.Elem()
		}
		name := types.TypeString(t, func(*types.Package) string { return "" })
		return "(" + star + name + ")." + fn.Name()
	}
	return fn.Name()
}

func (x *Exec) specFor(fn *ssa.Function) *spec.FuncSpec {
	if fn == nil {
		return nil
	}
	if fn.Pkg == nil {
		// the wrapper of a promoted method: contract under the name of the outer type, (*T).m
		if fn.Synthetic == "" || fn.Signature.Recv() == nil {
			return nil
		}
		t := fn.Signature.Recv().Type()
		if p, ok := t.(*types.Pointer); ok {
			t = p.Elem()
		}
		n, ok := t.(*types.Named)
		if !ok || n.Obj().Pkg() == nil {
			return nil
		}
		if db := x.Specs[n.Obj().Pkg().Path()]; db != nil && x.usable(db) {
			return db.Funcs[FuncName(fn)]
		}
		return nil
	}
	db := x.Specs[fn.Pkg.Pkg.Path()]
	if db == nil || !x.usable(db) {
		return nil
	}
	return db.Funcs[FuncName(fn)]
}

// usable: the contracts of a package that declares "package usedby P..." are used (as callee
// contracts and as the contracts to verify) only while a function of one of those packages, or of
// the package itself, is under verification; elsewhere its functions are uncontracted as before.
func (x *Exec) usable(db *spec.DB) bool {
	if len(db.UsedBy) == 0 || x.RootPkg == "" {
		return true
	}
	if strings.HasSuffix(x.RootPkg, "/"+db.Pkg) || x.RootPkg == db.Pkg {
		return true
	}
	for _, p := range db.UsedBy {
		if strings.HasSuffix(x.RootPkg, "/"+p) || x.RootPkg == p {
			return true
		}
	}
	return false
}

func (x *Exec) predFor(pkg *ssa.Package, name string) *spec.Pred {
	if pkg != nil {
		if db := x.Specs[pkg.Pkg.Path()]; db != nil {
			if p := db.Preds[name]; p != nil {
				return p
			}
		}
	}
	for _, db := range x.Specs {
		if p := db.Preds[name]; p != nil {
			return p
		}
	}
	return nil
}

// ---------- frames

type loopInfo struct {
	header  *ssa.BasicBlock
	blocks  map[*ssa.BasicBlock]bool
	ordinal int
	steps   []*spec.Clause // "loop N step e": relation between the variables at the start (prev(v)) and at the end of every iteration
	inv     []*spec.Clause
	dec     []*spec.Clause
	variant *smt.Term // value of the decreases expression at the header
	phis    []*ssa.Phi
	headSt  *State
}

type exitRec struct {
	st      *State
	results []Value
	where   string
	panicV  Value
	kind    string          // return | panic | noreturn-call
	blk     *ssa.BasicBlock // the block of the return instruction (names of its scope resolve there)
}

// Frame is one activation of a function under symbolic execution.
type Frame struct {
	x      *Exec
	fn     *ssa.Function
	regs   map[ssa.Value]Value
	spec   *spec.FuncSpec
	entry  *State // snapshot of the entry state (for old())
	loops  map[*ssa.BasicBlock]*loopInfo
	rets   []exitRec
	panics []exitRec
	names  map[string][]nameDef
	over   map[string]Value // name overrides (loop phis on back edges, results, let-bindings)
	defers []deferRec
	caller *Frame
	top    bool
	cur    *ssa.BasicBlock
	curIdx int
	binds  []Value // closure bindings (one per FreeVar)
	// panic propagation (only when the function under verification has on_exit / on_panic clauses)
	panicHook  func(ps *State, why string, ins ssa.Instruction)
	recovering *recovery
	unwinding  bool
	overTV     map[string]TV
	outer      *Frame // frame of the enclosing function (for closure contracts)
	iters      map[*ssa.Range]*rangeIter
	inOld      int
	stepFrom   *ssa.BasicBlock    // ... and the block the back edge leaves from (names of the loop body resolve there)
	prevVals   map[*ssa.Phi]Value // while a "loop N step" clause is evaluated: the loop variables at the start of the iteration
	pathMode   bool               // loop-free function explored path by path, without merging states at joins
	pathCount  int
	beforeSeen int // call-site assertions ("before") emitted
	// ghost history of static calls made by the function under verification: callee name -> the
	// path condition at the (last) call and its results; read by wascalled() / lastcall()
	callHist map[string]*callRec
	// defer stack bookkeeping (defer.go)
	inDefers    bool // deferred calls are running
	deferIdx    int  // index of the deferred call being run
	sawRepeated bool // a deferred call registered in a loop was passed: panicking mode unknown
}

type callRec struct {
	pc      *smt.Term
	fn      *ssa.Function
	args    []Value
	pre     *State // state just before the call
	post    *State // state just after it returned (kept when the contract uses aftercall)
	results []Value
	types   []types.Type
	n       int
}

type deferRec struct {
	call     *ssa.Defer
	fn       Value
	args     []Value
	pc       *smt.Term
	repeated bool // registered inside a loop: stands for any number of registrations
}

type nameDef struct {
	v     ssa.Value
	block *ssa.BasicBlock
	idx   int
	addr  bool
}

func (x *Exec) newFrame(fn *ssa.Function, caller *Frame) *Frame {
	f := &Frame{x: x, fn: fn, regs: map[ssa.Value]Value{}, loops: map[*ssa.BasicBlock]*loopInfo{}, names: map[string][]nameDef{}, over: map[string]Value{}, caller: caller, overTV: map[string]TV{}, iters: map[*ssa.Range]*rangeIter{}}
	if caller != nil && caller.panicHook != nil {
		f.panicHook = f.raise
	}
	f.spec = x.specFor(fn)
	f.indexNames()
	f.findLoops()
	return f
}

func (f *Frame) indexNames() {
	fn := f.fn
	for _, p := range fn.Params {
		f.names[p.Name()] = append(f.names[p.Name()], nameDef{v: p})
	}
	for _, fv := range fn.FreeVars {
		f.names[fv.Name()] = append(f.names[fv.Name()], nameDef{v: fv, addr: true})
	}
	for _, b := range fn.Blocks {
		for i, ins := range b.Instrs {
			switch ins := ins.(type) {
			case *ssa.DebugRef:
				if id, ok := ins.Expr.(interface{ String() string }); ok {
					_ = id
				}
				if ins.Object() != nil {
					n := ins.Object().Name()
					f.names[n] = append(f.names[n], nameDef{v: ins.X, block: b, idx: i, addr: ins.IsAddr})
				}
			case *ssa.Phi:
				if ins.Comment != "" {
					f.names[ins.Comment] = append(f.names[ins.Comment], nameDef{v: ins, block: b, idx: i})
				}
			case *ssa.Alloc:
				if ins.Comment != "" && !strings.Contains(ins.Comment, " ") {
					f.names[ins.Comment] = append(f.names[ins.Comment], nameDef{v: ins, block: b, idx: i, addr: true})
				}
			}
		}
	}
}

// lookupName resolves a source-level variable name at the current program point.
func (f *Frame) lookupName(name string) (nameDef, bool) {
	d, ok := f.lookupName1(name)
	if !ok && f.stepFrom != nil {
		sc, si := f.cur, f.curIdx
		f.cur, f.curIdx = f.stepFrom, len(f.stepFrom.Instrs)
		d, ok = f.lookupName1(name)
		f.cur, f.curIdx = sc, si
	}
	return d, ok
}

func (f *Frame) lookupName1(name string) (nameDef, bool) {
	defs := f.names[name]
	hasParamDef := false
	for _, d := range defs {
		if d.block == nil {
			hasParamDef = true
		}
	}
	var best nameDef
	found := false
	bestDepth := -1
	for _, d := range defs {
		if d.block == nil {
			if !found {
				best, found = d, true
			}
			continue
		}
		if f.cur == nil {
			// at an exit: a local defined in the entry block dominates every exit
			// (a name that is also a parameter keeps denoting the parameter)
			if _, defined := f.regs[d.v]; defined && !hasParamDef && d.block == f.fn.Blocks[0] && !isPhi(d.v) {
				if depth := d.idx; depth > bestDepth {
					best, found, bestDepth = d, true, depth
				}
			}
			continue
		}
		ok := false
		if d.block == f.cur {
			ok = d.idx <= f.curIdx || isPhi(d.v)
		} else if d.block.Dominates(f.cur) {
			ok = true
		}
		if !ok {
			continue
		}
		depth := domDepth(d.block)*100000 + d.idx
		if d.block == f.cur && isPhi(d.v) {
			depth = domDepth(d.block)*100000 + 0
		}
		if depth > bestDepth {
			best, found, bestDepth = d, true, depth
		}
	}
	return best, found
}

// interiorPhi: the element type when phi is a pointer variable some definition of which is the
// address of a slice element (looking through other phis), nil otherwise; and the slice, when all
// those addresses are elements of the same slice value.
func interiorPhi(phi *ssa.Phi) (types.Type, ssa.Value) {
	pt, ok := phi.Type().Underlying().(*types.Pointer)
	if !ok {
		return nil, nil
	}
	seen := map[*ssa.Phi]bool{}
	found := false
	var of ssa.Value
	same := true
	var walk func(v ssa.Value)
	walk = func(v ssa.Value) {
		switch v := v.(type) {
		case *ssa.IndexAddr:
			if _, isSlice := v.X.Type().Underlying().(*types.Slice); isSlice {
				found = true
				if of == nil {
					of = v.X
				} else if of != v.X {
					same = false
				}
			} else {
				same = false
			}
		case *ssa.Phi:
			if seen[v] {
				return
			}
			seen[v] = true
			for _, e := range v.Edges {
				walk(e)
			}
		case *ssa.Const:
			if !v.IsNil() {
				same = false
			}
		default:
			same = false
		}
	}
	walk(phi)
	if !found {
		return nil, nil
	}
	if !same {
		of = nil
	}
	return pt.Elem(), of
}

func defBlock(v ssa.Value) *ssa.BasicBlock {
	if ins, ok := v.(ssa.Instruction); ok {
		return ins.Block()
	}
	return nil
}

func isPhi(v ssa.Value) bool { _, ok := v.(*ssa.Phi); return ok }

func domDepth(b *ssa.BasicBlock) int {
	d := 0
	for c := b.Idom(); c != nil; c = c.Idom() {
		d++
	}
	return d
}

func reachableFrom(b *ssa.BasicBlock) map[*ssa.BasicBlock]bool {
	seen := map[*ssa.BasicBlock]bool{b: true}
	stack := []*ssa.BasicBlock{b}
	for len(stack) > 0 {
		n := stack[len(stack)-1]
		stack = stack[:len(stack)-1]
		for _, s := range n.Succs {
			if !seen[s] {
				seen[s] = true
				stack = append(stack, s)
			}
		}
	}
	return seen
}

func (f *Frame) findLoops() {
	fn := f.fn
	if len(fn.Blocks) == 0 {
		return
	}
	var headers []*ssa.BasicBlock
	for _, b := range fn.Blocks {
		for _, s := range b.Succs {
			if isBack(b, s) { // back edge b -> s
				li := f.loops[s]
				if li == nil {
					li = &loopInfo{header: s, blocks: map[*ssa.BasicBlock]bool{s: true}}
					f.loops[s] = li
					headers = append(headers, s)
				}
				// natural loop: nodes that reach b without passing through s
				var stack []*ssa.BasicBlock
				if !li.blocks[b] {
					li.blocks[b] = true
					stack = append(stack, b)
				}
				// (for a loop with a second entry, only the nodes reachable from the header count)
				fwd := reachableFrom(s)
				for len(stack) > 0 {
					n := stack[len(stack)-1]
					stack = stack[:len(stack)-1]
					for _, p := range n.Preds {
						if !li.blocks[p] && fwd[p] {
							li.blocks[p] = true
							stack = append(stack, p)
						}
					}
				}
			}
		}
	}
	// ordinals by source position of the loop (smallest position of an instruction in the loop)
	pos := func(li *loopInfo) token.Pos {
		best := token.Pos(1 << 40)
		for b := range li.blocks {
			for _, ins := range b.Instrs {
				if p := ins.Pos(); p.IsValid() && p < best {
					best = p
				}
				if d, ok := ins.(*ssa.DebugRef); ok {
					if p := d.Expr.Pos(); p.IsValid() && p < best {
						best = p
					}
				}
			}
		}
		return best
	}
	sort.Slice(headers, func(i, j int) bool {
		pi, pj := pos(f.loops[headers[i]]), pos(f.loops[headers[j]])
		if pi != pj {
			return pi < pj
		}
		return headers[i].Index < headers[j].Index
	})
	for i, h := range headers {
		li := f.loops[h]
		li.ordinal = i + 1
		if os.Getenv("GOWP_LOOPS") != "" {
			fmt.Fprintf(os.Stderr, "loop %d of %s: header block %d at %s\n", li.ordinal, FuncName(f.fn), h.Index, f.x.Prog.Fset.Position(pos(li)))
		}
		for _, ins := range h.Instrs {
			if p, ok := ins.(*ssa.Phi); ok {
				li.phis = append(li.phis, p)
			}
		}
		if f.spec != nil {
			for _, c := range f.spec.Clauses {
				if (c.Loop == li.ordinal || c.Loop == -1) && c.Kind == "invariant" {
					li.inv = append(li.inv, c)
				}
				if c.Loop == li.ordinal && c.Kind == "decreases" {
					li.dec = append(li.dec, c)
				}
				if (c.Loop == li.ordinal || c.Loop == -1) && c.Kind == "step" {
					li.steps = append(li.steps, c)
				}
			}
		}
	}
}

func (f *Frame) where(ins ssa.Instruction) string {
	p := ins.Pos()
	if !p.IsValid() {
		if d, ok := ins.(*ssa.DebugRef); ok {
			p = d.Expr.Pos()
		}
	}
	if !p.IsValid() {
		return FuncName(f.fn)
	}
	ps := f.x.Prog.Fset.Position(p)
	return fmt.Sprintf("%s:%d", strings.TrimPrefix(ps.Filename, "/repo/"), ps.Line)
}

// val evaluates an SSA operand.
func (f *Frame) val(v ssa.Value) Value {
	if r, ok := f.regs[v]; ok {
		return r
	}
	switch v := v.(type) {
	case *ssa.Const:
		return f.x.constValue(v)
	case *ssa.Function:
		return &FuncVal{Fn: v, ID: f.x.funcID(v)}
	case *ssa.Global:
		return &Ptr{Glob: v, Key: "glob:" + v.Pkg.Pkg.Path() + "." + v.Name(), Type: v.Type().(*types.Pointer).Elem()}
	case *ssa.Builtin:
		return v
	case *ssa.FreeVar:
		for i, fv := range f.fn.FreeVars {
			if fv == v {
				if i < len(f.binds) {
					return f.binds[i]
				}
			}
		}
		unsupported("free variable %s without binding", v.Name())
	}
	unsupported("value %s (%T) used before definition in %s", v.Name(), v, f.fn.Name())
	return nil
}

func (x *Exec) constValue(c *ssa.Const) Value {
	t := c.Type()
	if c.Value == nil {
		return x.zeroValue(t)
	}
	b, ok := t.Underlying().(*types.Basic)
	if !ok {
		unsupported("constant of type %s", t)
	}
	B := x.B
	switch {
	case b.Info()&types.IsBoolean != 0:
		return B.BoolC(constant.BoolVal(c.Value))
	case b.Info()&types.IsInteger != 0:
		s := basicSort(b)
		iv := constant.ToInt(c.Value)
		if u, ok := constant.Uint64Val(iv); ok {
			return B.BVC(u, s.W)
		}
		n, _ := constant.Int64Val(iv)
		return B.BVC(uint64(n), s.W)
	case b.Info()&types.IsFloat != 0:
		fv, _ := constant.Float64Val(c.Value)
		return x.floatConst(fv, basicSort(b))
	case b.Info()&types.IsComplex != 0:
		re, _ := constant.Float64Val(constant.Real(c.Value))
		im, _ := constant.Float64Val(constant.Imag(c.Value))
		s := smt.FP64
		if b.Kind() == types.Complex64 {
			s = smt.FP32
		}
		return &Struct{[]Value{x.floatConst(re, s), x.floatConst(im, s)}}
	case b.Info()&types.IsString != 0:
		return x.strConst(constant.StringVal(c.Value))
	}
	unsupported("constant %s", c)
	return nil
}

// ---------- running a function

// RunResult is what the caller of an inlined function continues with.
type RunResult struct {
	Out     *State  // merged state at normal return (Dead if the function never returns)
	Results []Value // merged results
	Rets    []exitRec
	Panics  []exitRec
}

func (f *Frame) run(st0 *State, args []Value) *RunResult {
	fn := f.fn
	x := f.x
	if len(fn.Blocks) == 0 {
		unsupported("function %s has no body", fn)
	}
	if len(args) != len(fn.Params) {
		unsupported("arity mismatch calling %s", fn)
	}
	for i, p := range fn.Params {
		f.regs[p] = args[i]
	}
	f.entry = st0.clone()
	if f.pathMode && len(f.loops) == 0 {
		return f.runPaths(st0)
	}
	order := rpo(fn)
	in := map[*ssa.BasicBlock][]*edgeIn{}
	in[fn.Blocks[0]] = []*edgeIn{{from: nil, st: st0}}
	var recoverIn []*State
	for _, b := range order {
		ins := in[b]
		var st *State
		if li := f.loops[b]; li != nil {
			st = f.enterLoop(li, ins)
		} else {
			st = f.joinBlock(b, ins)
		}
		if st.Dead || st.PC.IsFalse() {
			continue
		}
		f.cur = b
		dead := false
		for i, instr := range b.Instrs {
			f.curIdx = i
			if _, ok := instr.(*ssa.Phi); ok {
				continue
			}
			if !f.step(st, instr) {
				dead = true
				break
			}
			if st.PC.IsFalse() {
				dead = true
				break
			}
		}
		if dead {
			continue
		}
		// terminator
		last := b.Instrs[len(b.Instrs)-1]
		switch t := last.(type) {
		case *ssa.If:
			c := f.val(t.Cond).(*smt.Term)
			sT := st.clone()
			sT.PC = x.B.And(st.PC, c)
			sF := st
			sF.PC = x.B.And(st.PC, x.B.Not(c))
			f.flow(in, b, b.Succs[0], sT)
			f.flow(in, b, b.Succs[1], sF)
		case *ssa.Jump:
			f.flow(in, b, b.Succs[0], st)
		case *ssa.Return:
			var rs []Value
			for _, r := range t.Results {
				rs = append(rs, f.val(r))
			}
			f.rets = append(f.rets, exitRec{st: st, results: rs, where: f.where(t), kind: "return", blk: t.Block()})
		case *ssa.Panic:
			if f.panicHook != nil {
				f.panicHook(st, "panic", t)
			} else {
				f.panics = append(f.panics, exitRec{st: st, where: f.where(t), panicV: f.val(t.X), kind: "panic"})
			}
		default:
			unsupported("terminator %T", last)
		}
	}
	_ = recoverIn
	res := &RunResult{Rets: f.rets, Panics: f.panics}
	// merged normal exit
	var sts []*State
	for _, r := range f.rets {
		sts = append(sts, r.st)
	}
	res.Out = x.mergeStates(sts)
	if len(f.rets) > 0 {
		n := len(f.rets[0].results)
		res.Results = make([]Value, n)
		var rpcs []*smt.Term
		for _, r := range f.rets {
			if !r.st.PC.IsFalse() {
				rpcs = append(rpcs, r.st.PC)
			}
		}
		_, rs := x.factorPCs(rpcs)
		rsel := make([]*smt.Term, len(f.rets))
		for k, j := 0, 0; k < len(f.rets); k++ {
			if !f.rets[k].st.PC.IsFalse() {
				rsel[k] = rs[j]
				j++
			}
		}
		for i := 0; i < n; i++ {
			var v Value
			for k := len(f.rets) - 1; k >= 0; k-- {
				r := f.rets[k]
				if r.st.PC.IsFalse() {
					continue
				}
				if v == nil {
					v = r.results[i]
				} else {
					v = x.ite(rsel[k], r.results[i], v)
				}
			}
			if v == nil {
				v = f.rets[0].results[i]
			}
			res.Results[i] = v
		}
	}
	return res
}

type edgeIn struct {
	from *ssa.BasicBlock
	st   *State
}

func (f *Frame) flow(in map[*ssa.BasicBlock][]*edgeIn, from, to *ssa.BasicBlock, st *State) {
	if isBack(from, to) && f.loops[to] != nil {
		f.closeLoop(f.loops[to], from, st)
		return
	}
	// a block that only returns is not joined: each incoming edge is its own return site, which
	// keeps the obligations free of merged (ite) values
	if len(to.Preds) > 1 && f.loops[to] == nil {
		if ret := returnOnly(to); ret != nil && !st.Dead && !st.PC.IsFalse() {
			for _, instr := range to.Instrs {
				if phi, ok := instr.(*ssa.Phi); ok {
					f.regs[phi] = f.val(phi.Edges[predIndex(to, from)])
				}
			}
			var rs []Value
			for _, r := range ret.Results {
				rs = append(rs, f.val(r))
			}
			f.rets = append(f.rets, exitRec{st: st, results: rs, where: f.where(ret), kind: "return", blk: ret.Block()})
			return
		}
	}
	// a loop latch (a join whose only successor is the back edge, holding just phis and arithmetic:
	// the "i++" block) is run once per incoming edge instead of on the merged state: the
	// invariant-preservation obligations then come per path, free of merged (ite) values
	if len(to.Preds) > 1 && f.loops[to] == nil && len(to.Succs) == 1 && isBack(to, to.Succs[0]) && f.loops[to.Succs[0]] != nil && latchOnly(to) && !st.Dead && !st.PC.IsFalse() {
		sc, si := f.cur, f.curIdx
		f.cur = to
		for _, instr := range to.Instrs {
			if phi, ok := instr.(*ssa.Phi); ok {
				f.regs[phi] = f.val(phi.Edges[predIndex(to, from)])
			}
		}
		ok := true
		for i, instr := range to.Instrs {
			f.curIdx = i
			if _, isPhi := instr.(*ssa.Phi); isPhi {
				continue
			}
			if _, isJ := instr.(*ssa.Jump); isJ {
				break
			}
			if !f.step(st, instr) || st.PC.IsFalse() {
				ok = false
				break
			}
		}
		f.cur, f.curIdx = sc, si
		if ok {
			f.closeLoop(f.loops[to.Succs[0]], to, st)
		}
		return
	}
	in[to] = append(in[to], &edgeIn{from: from, st: st})
}

// latchOnly: the block consists of phis, debug references, integer arithmetic and a jump.
func latchOnly(b *ssa.BasicBlock) bool {
	for _, instr := range b.Instrs {
		switch instr.(type) {
		case *ssa.Phi, *ssa.DebugRef, *ssa.BinOp, *ssa.Jump:
		default:
			return false
		}
	}
	return true
}

// returnOnly: the block consists of phis, debug references and a return.
func returnOnly(b *ssa.BasicBlock) *ssa.Return {
	for _, instr := range b.Instrs {
		switch i := instr.(type) {
		case *ssa.Phi, *ssa.DebugRef:
		case *ssa.Return:
			return i
		default:
			return nil
		}
	}
	return nil
}

// retreating edges of a depth-first traversal from the entry block: in a reducible control-flow
// graph these are exactly the back edges (the target dominates the source); with goto into the
// middle of a loop (irreducible graph) every cycle still contains at least one of them, so cutting
// each at its target with an invariant is sound.
var retreatCache = map[*ssa.Function]map[[2]int]bool{}
var retreatMu sync.Mutex

func retreatingEdges(fn *ssa.Function) map[[2]int]bool {
	retreatMu.Lock()
	defer retreatMu.Unlock()
	if m, ok := retreatCache[fn]; ok {
		return m
	}
	m := map[[2]int]bool{}
	color := map[*ssa.BasicBlock]int{}
	var dfs func(b *ssa.BasicBlock)
	dfs = func(b *ssa.BasicBlock) {
		color[b] = 1
		for _, s := range b.Succs {
			switch color[s] {
			case 0:
				dfs(s)
			case 1:
				m[[2]int{b.Index, s.Index}] = true
			}
		}
		color[b] = 2
	}
	if len(fn.Blocks) > 0 {
		dfs(fn.Blocks[0])
	}
	retreatCache[fn] = m
	return m
}

func isBack(from, to *ssa.BasicBlock) bool {
	return retreatingEdges(from.Parent())[[2]int{from.Index, to.Index}]
}

func rpo(fn *ssa.Function) []*ssa.BasicBlock {
	seen := map[*ssa.BasicBlock]bool{}
	var post []*ssa.BasicBlock
	var dfs func(b *ssa.BasicBlock)
	dfs = func(b *ssa.BasicBlock) {
		seen[b] = true
		for _, s := range b.Succs {
			if !seen[s] && !isBack(b, s) {
				dfs(s)
			}
		}
		post = append(post, b)
	}
	dfs(fn.Blocks[0])
	for i, j := 0, len(post)-1; i < j; i, j = i+1, j-1 {
		post[i], post[j] = post[j], post[i]
	}
	// RPO of the DAG without back edges is a topological order only if we ignore back edges in DFS,
	// which we did; but a DFS-based order may still visit a join before all its forward preds when
	// the DFS entered it early: use Kahn's algorithm on forward edges for a strict topological order.
	indeg := map[*ssa.BasicBlock]int{}
	for _, b := range post {
		for _, s := range b.Succs {
			if !isBack(b, s) && seen[s] {
				indeg[s]++
			}
		}
	}
	var out []*ssa.BasicBlock
	var ready []*ssa.BasicBlock
	for _, b := range post {
		if indeg[b] == 0 {
			ready = append(ready, b)
		}
	}
	posIdx := map[*ssa.BasicBlock]int{}
	for i, b := range post {
		posIdx[b] = i
	}
	for len(ready) > 0 {
		sort.Slice(ready, func(i, j int) bool { return posIdx[ready[i]] < posIdx[ready[j]] })
		b := ready[0]
		ready = ready[1:]
		out = append(out, b)
		for _, s := range b.Succs {
			if !isBack(b, s) && seen[s] {
				indeg[s]--
				if indeg[s] == 0 {
					ready = append(ready, s)
				}
			}
		}
	}
	return out
}

// joinBlock merges the incoming edge states and evaluates phis.
func (f *Frame) joinBlock(b *ssa.BasicBlock, ins []*edgeIn) *State {
	x := f.x
	var live []*edgeIn
	for _, e := range ins {
		if !e.st.Dead && !e.st.PC.IsFalse() {
			live = append(live, e)
		}
	}
	if len(live) == 0 {
		d := x.newState()
		d.Dead = true
		d.PC = x.B.False()
		return d
	}
	sel := f.selectors(live)
	for _, instr := range b.Instrs {
		phi, ok := instr.(*ssa.Phi)
		if !ok {
			break
		}
		var v Value
		for k := len(live) - 1; k >= 0; k-- {
			e := live[k]
			ev := f.val(phi.Edges[predIndex(b, e.from)])
			if v == nil {
				v = ev
			} else {
				v = x.ite(sel[k], ev, v)
			}
		}
		f.regs[phi] = v
	}
	var sts []*State
	for _, e := range live {
		sts = append(sts, e.st)
	}
	return x.mergeStates(sts)
}

func predIndex(b, from *ssa.BasicBlock) int {
	for i, p := range b.Preds {
		if p == from {
			return i
		}
	}
	panic("predIndex")
}

// ---------- loops

// preRegisterDefers: deferred calls registered inside the loop - from the loop head on any number
// of them may be on the defer stack (above the ones registered before the loop).
func (f *Frame) preRegisterDefers(li *loopInfo) {
	x := f.x
	for _, lb := range f.fn.Blocks {
		if !li.blocks[lb] {
			continue
		}
		for _, instr := range lb.Instrs {
			d, ok := instr.(*ssa.Defer)
			if !ok {
				continue
			}
			seen := false
			for _, o := range f.defers {
				if o.call == d {
					seen = true
				}
			}
			if seen {
				continue
			}
			rec := deferRec{call: d, pc: x.B.True(), repeated: true}
			if !d.Call.IsInvoke() {
				if v, ok := f.regs[d.Call.Value]; ok {
					rec.fn = v
				} else if _, isFn := d.Call.Value.(*ssa.Function); !isFn {
					if _, isB := d.Call.Value.(*ssa.Builtin); !isB {
						unsupported("deferred call of a function value computed inside a loop")
					}
				}
			}
			f.defers = append(f.defers, rec)
		}
	}
}

func (f *Frame) enterLoop(li *loopInfo, ins []*edgeIn) *State {
	x := f.x
	b := li.header
	var live []*edgeIn
	for _, e := range ins {
		if !e.st.Dead && !e.st.PC.IsFalse() {
			live = append(live, e)
		}
	}
	if len(live) == 0 {
		d := x.newState()
		d.Dead = true
		d.PC = x.B.False()
		return d
	}
	if len(li.inv) == 0 {
		unsupported("loop %d of %s has no invariant", li.ordinal, FuncName(f.fn))
	}
	f.preRegisterDefers(li)
	// entry values of the header phis
	sel := f.selectors(live)
	for _, phi := range li.phis {
		var v Value
		for k := len(live) - 1; k >= 0; k-- {
			e := live[k]
			ev := f.val(phi.Edges[predIndex(b, e.from)])
			if v == nil {
				v = ev
			} else {
				v = x.ite(sel[k], ev, v)
			}
		}
		f.regs[phi] = v
	}
	var sts []*State
	for _, e := range live {
		sts = append(sts, e.st)
	}
	se := x.mergeStates(sts)
	f.cur, f.curIdx = b, len(li.phis)
	for _, c := range li.inv {
		g := f.evalBool(c.Expr, se, f.entry)
		x.oblige(fmt.Sprintf("loop%d-invariant-entry", li.ordinal), c.Text, fmt.Sprintf("%s:%d", shortFile(c.File), c.Line), se, g)
	}
	// havoc what the loop may modify
	st := se.clone()
	ms := f.modSet(li)
	if ms.all {
		x.havocAll(st, x.B.Fresh("tok", RefS))
	}
	for _, p := range ms.prefixes {
		x.havocPrefix(st, p)
	}
	for _, rm := range ms.rows {
		covered := ms.all
		for _, p := range ms.prefixes {
			if strings.HasPrefix(rm.prefix, p) {
				covered = true
			}
		}
		if covered {
			continue
		}
		rv := f.val(rm.root)
		for _, l := range flatten(rm.typ) {
			key := rm.prefix + l.Suffix
			if rm.arr {
				arr, _, _, _ := sliceParts(rv)
				inner := smt.Array(I64, l.Sort)
				h := x.heapGet(st, key, smt.Array(RefS, inner))
				x.heapSet(st, key, x.B.Store(h, arr, x.B.Fresh("row", inner)))
			} else {
				ref := rv.(*smt.Term)
				h := x.heapGet(st, key, smt.Array(RefS, l.Sort))
				x.heapSet(st, key, x.B.Store(h, ref, x.B.Fresh("row", l.Sort)))
			}
		}
	}
	for c := range ms.cells {
		st.cells[c] = x.freshValue("cell_"+c.Name, c.Type)
	}
	for _, phi := range li.phis {
		name := phi.Comment
		if name == "" {
			name = phi.Name()
		}
		if et, of := interiorPhi(phi); et != nil {
			// a pointer variable assigned element addresses (&s[i]) in the loop: an arbitrary
			// element address, or nil (root 0); the invariant says which
			nm := fmt.Sprintf("%s@L%d", name, li.ordinal)
			if sv, ok := f.regs[of]; ok && of != nil && !li.blocks[defBlock(of)] {
				// every such address is an element of one slice defined before the loop: nil, or
				// &s[rel] for an arbitrary rel (same shape as the addresses the loop body computes)
				arr, off, _, _ := sliceParts(sv)
				root := x.B.Fresh(nm+"#arr", RefS)
				rel := x.B.Fresh(nm+"#rel", I64)
				st.PC = x.B.And(st.PC, x.B.Or(x.B.Eq(root, x.B.IntC(0)), x.B.Eq(root, arr)))
				f.regs[phi] = &Ptr{Arr: root, Idx: x.B.IndexAdd(off, rel), Off: off, Rel: rel, Key: "[]" + typeKey(et), Type: et}
				continue
			}
			f.regs[phi] = &Ptr{Arr: x.B.Fresh(nm+"#arr", RefS), Idx: x.B.Fresh(nm+"#idx", I64), Key: "[]" + typeKey(et), Type: et}
			continue
		}
		f.regs[phi] = x.freshValue(fmt.Sprintf("%s@L%d", name, li.ordinal), phi.Type())
	}
	for _, c := range li.inv {
		g := f.evalBool(c.Expr, st, f.entry)
		st.PC = x.B.And(st.PC, g)
	}
	if len(li.dec) > 0 {
		li.variant = f.evalTerm(li.dec[0].Expr, st, f.entry)
	}
	li.headSt = st.clone()
	return st
}

func (f *Frame) closeLoop(li *loopInfo, from *ssa.BasicBlock, st *State) {
	x := f.x
	if st.Dead || st.PC.IsFalse() {
		return
	}
	b := li.header
	saved := map[*ssa.Phi]Value{}
	newv := map[*ssa.Phi]Value{}
	for _, phi := range li.phis {
		newv[phi] = f.val(phi.Edges[predIndex(b, from)])
	}
	for _, phi := range li.phis {
		saved[phi] = f.regs[phi]
		f.regs[phi] = newv[phi]
	}
	sc, si := f.cur, f.curIdx
	f.cur, f.curIdx = b, len(li.phis)
	for _, c := range li.inv {
		g := f.evalBool(c.Expr, st, f.entry)
		x.oblige(fmt.Sprintf("loop%d-invariant-preserved", li.ordinal), c.Text, fmt.Sprintf("%s:%d", shortFile(c.File), c.Line), st, g)
	}
	if len(li.dec) > 0 && li.variant != nil {
		nv := f.evalTerm(li.dec[0].Expr, st, f.entry)
		B := x.B
		var g *smt.Term
		if nv.S.K == smt.KBV {
			g = B.And(B.BVCmp("bvsle", B.BVC(0, nv.S.W), li.variant), B.BVCmp("bvslt", nv, li.variant))
		} else {
			g = B.And(B.IntOp("<=", B.IntC(0), li.variant), B.IntOp("<", nv, li.variant))
		}
		x.oblige(fmt.Sprintf("loop%d-decreases", li.ordinal), li.dec[0].Text, fmt.Sprintf("%s:%d", shortFile(li.dec[0].File), li.dec[0].Line), st, g)
	}
	if len(li.steps) > 0 {
		// transition relation of one iteration: names denote the values at the end of the iteration
		// (variables of the loop body included), prev(e) evaluates e with the loop's variables at
		// the values they had at its start
		f.stepFrom = from
		f.prevVals = saved
		for _, c := range li.steps {
			g := f.evalBool(c.Expr, st, f.entry)
			x.oblige(fmt.Sprintf("loop%d-step", li.ordinal), c.Text, fmt.Sprintf("%s:%d", shortFile(c.File), c.Line), st, g)
		}
		f.prevVals = nil
		f.stepFrom = nil
	}
	f.cur, f.curIdx = sc, si
	for _, phi := range li.phis {
		f.regs[phi] = saved[phi]
	}
}

func shortFile(s string) string { return strings.TrimPrefix(s, "/repo/") }

type modSet struct {
	all      bool
	prefixes []string
	cells    map[*Cell]bool
	rows     []rowMod // stores through a loop-invariant root: only that object's row is forgotten
}

type rowMod struct {
	prefix string
	typ    types.Type // type of the stored location
	root   ssa.Value  // slice value (arr) or object pointer (ref), defined outside the loop
	arr    bool
}

// modSet over-approximates what a loop body may write, from static types only
// (heap keys are type-based, so this is exactly as precise as the heap model).
func (f *Frame) modSet(li *loopInfo) *modSet {
	ms := &modSet{cells: map[*Cell]bool{}}
	seen := map[string]bool{}
	add := func(p string) {
		if !seen[p] {
			seen[p] = true
			ms.prefixes = append(ms.prefixes, p)
		}
	}
	var scanFn func(fn *ssa.Function, blocks map[*ssa.BasicBlock]bool, depth int)
	scanFn = func(fn *ssa.Function, blocks map[*ssa.BasicBlock]bool, depth int) {
		for _, b := range fn.Blocks {
			if blocks != nil && !blocks[b] {
				continue
			}
			for _, ins := range b.Instrs {
				switch ins := ins.(type) {
				case *ssa.Store:
					if blocks != nil && depth == 0 {
						if rm, ok := f.rowOf(ins.Addr, blocks); ok {
							ms.rows = append(ms.rows, rm)
							continue
						}
					}
					if k, cellAlloc := f.staticKey(ins.Addr); cellAlloc != nil {
						if c, ok := f.regs[cellAlloc].(*Ptr); ok && c.Cell != nil {
							ms.cells[c.Cell] = true
						}
					} else if k != "" {
						add(k)
					} else {
						ms.all = true
					}
				case *ssa.MapUpdate:
					add("map:" + typeKey(ins.Map.Type().Underlying()))
				case *ssa.Call:
					f.scanCall(&ins.Call, ms, add, scanFn, depth)
				case *ssa.Defer:
					f.scanCall(&ins.Call, ms, add, scanFn, depth)
				case *ssa.Go:
					ms.all = true
				case *ssa.Send:
					ms.all = true
				}
			}
		}
	}
	scanFn(f.fn, li.blocks, 0)
	sort.Strings(ms.prefixes)
	return ms
}

func (f *Frame) scanCall(c *ssa.CallCommon, ms *modSet, add func(string), scanFn func(*ssa.Function, map[*ssa.BasicBlock]bool, int), depth int) {
	x := f.x
	if bi, ok := c.Value.(*ssa.Builtin); ok {
		switch bi.Name() {
		case "append", "copy":
			if len(c.Args) > 0 {
				if sl, ok := c.Args[0].Type().Underlying().(*types.Slice); ok {
					add("[]" + typeKey(sl.Elem()))
				}
			}
		case "delete":
			add("map:" + typeKey(c.Args[0].Type().Underlying()))
		}
		return
	}
	callee := c.StaticCallee()
	if callee == nil {
		if c.IsInvoke() {
			if impls := x.closedImpls(c); impls != nil {
				if depth > 3 {
					ms.all = true
					return
				}
				for _, ic := range impls {
					if sp := x.specFor(ic.fn); sp != nil && !sp.Flags["inline"] {
						if len(sp.Of("modifies")) > 0 && !sp.Flags["pure"] {
							ms.all = true
						}
						continue
					}
					scanFn(ic.fn, nil, depth+1)
				}
				return
			}
			if x.ifaceSpecFor(c.Method) != nil {
				return // an interface method with an assumed contract: no modifies clause, no effect
			}
		}
		ms.all = true
		return
	}
	if m := x.libModel(callee); m != nil {
		for _, p := range m.mods(c) {
			if p == "*" {
				ms.all = true
			} else {
				add(p)
			}
		}
		return
	}
	sp := x.specFor(callee)
	if sp != nil && !sp.Flags["inline"] {
		if sp.Flags["pure"] {
			return
		}
		mods := sp.Of("modifies")
		if len(mods) == 0 {
			return // no modifies clause on a contract = modifies nothing
		}
		// conservative: key prefixes named by the static shape of each lvalue are not available
		// without types; havoc by the 'key:' form or everything
		for _, m := range mods {
			for _, e := range m.List {
				if k := modKeyOf(e); k != "" {
					add(k)
				} else {
					ms.all = true
				}
			}
		}
		return
	}
	if depth > 6 || len(callee.Blocks) == 0 {
		ms.all = true
		return
	}
	scanFn(callee, nil, depth+1)
}

// modKeyOf recognises "key(\"prefix\")" lvalues in modifies clauses.
func modKeyOf(e spec.Expr) string {
	if c, ok := e.(*spec.Call); ok {
		if id, ok := c.Fun.(*spec.Ident); ok && id.Name == "key" && len(c.Args) == 1 {
			if l, ok := c.Args[0].(*spec.Lit); ok && l.Kind == "str" {
				return strings.Trim(l.Val, "\"")
			}
		}
	}
	return ""
}

// staticKey computes the heap-key prefix written by a store through addr, from static types.
// For stores into local cells it returns the Alloc instead.
func (f *Frame) staticKey(addr ssa.Value) (string, *ssa.Alloc) {
	switch a := addr.(type) {
	case *ssa.Alloc:
		if f.allocIsObject(a) {
			return derefKey(a.Type().(*types.Pointer).Elem()), nil
		}
		return "", a
	case *ssa.FieldAddr:
		st := a.X.Type().Underlying().(*types.Pointer).Elem()
		fld := st.Underlying().(*types.Struct).Field(a.Field)
		base, cell := f.staticKey(a.X)
		if cell != nil {
			return "", cell
		}
		if base == "" {
			return "", nil
		}
		return base + "." + fld.Name(), nil
	case *ssa.IndexAddr:
		switch t := a.X.Type().Underlying().(type) {
		case *types.Slice:
			return "[]" + typeKey(t.Elem()), nil
		case *types.Pointer: // pointer to array
			base, cell := f.staticKey(a.X)
			if cell != nil {
				return "", cell
			}
			if base == "" {
				return "", nil
			}
			return base + "[]", nil
		}
	case *ssa.Global:
		return "glob:" + a.Pkg.Pkg.Path() + "." + a.Name(), nil
	case *ssa.Convert, *ssa.ChangeType:
		// unsafe view: the underlying location
		var xv ssa.Value
		if c, ok := a.(*ssa.Convert); ok {
			xv = c.X
		} else {
			xv = a.(*ssa.ChangeType).X
		}
		return f.staticKey(xv)
	case *ssa.FreeVar:
		// captured variable cell: treated as a cell of the enclosing frame
		return "", nil
	}
	if p, ok := addr.Type().Underlying().(*types.Pointer); ok {
		return derefKey(p.Elem()), nil
	}
	return "", nil
}

// selectors gives, for each incoming edge, a condition that distinguishes it from the others
// (the path condition with the conjuncts common to all edges removed).
func (f *Frame) selectors(live []*edgeIn) []*smt.Term {
	pcs := make([]*smt.Term, len(live))
	for i, e := range live {
		pcs[i] = e.st.PC
	}
	_, rests := f.x.factorPCs(pcs)
	if len(pcs) == 2 {
		rests[0] = f.x.splitSelector(pcs[0], pcs[1], rests[0])
	}
	return rests
}

// rowOf recognises a store whose target lies in an object or backing array identified by a value
// defined outside the loop: x.f = v, x.f.g = v, s[i] = v, s[i].f = v with x / s loop-invariant.
func (f *Frame) rowOf(addr ssa.Value, loop map[*ssa.BasicBlock]bool) (rowMod, bool) {
	invariant := func(v ssa.Value) bool {
		switch v := v.(type) {
		case *ssa.Parameter, *ssa.Const, *ssa.Global, *ssa.FreeVar:
			return true
		case ssa.Instruction:
			return !loop[v.Block()]
		}
		return false
	}
	var path []string
	cur := addr
	for {
		switch a := cur.(type) {
		case *ssa.FieldAddr:
			st := a.X.Type().Underlying().(*types.Pointer).Elem()
			path = append([]string{"." + st.Underlying().(*types.Struct).Field(a.Field).Name()}, path...)
			if _, isPtr := f.regs[a.X].(*Ptr); !isPtr {
				// a.X is a plain object reference (or not yet evaluated)
				if _, isField := a.X.(*ssa.FieldAddr); !isField {
					if _, isIdx := a.X.(*ssa.IndexAddr); !isIdx {
						if _, isAlloc := a.X.(*ssa.Alloc); isAlloc {
							return rowMod{}, false
						}
						if !invariant(a.X) {
							return rowMod{}, false
						}
						if _, ok := st.Underlying().(*types.Struct); !ok || isOpaqueStruct(st) {
							return rowMod{}, false
						}
						pt := addr.Type().Underlying().(*types.Pointer).Elem()
						return rowMod{prefix: typeKey(st) + strings.Join(path, ""), typ: pt, root: a.X}, true
					}
				}
			}
			cur = a.X
		case *ssa.IndexAddr:
			sl, ok := a.X.Type().Underlying().(*types.Slice)
			if !ok || !invariant(a.X) {
				return rowMod{}, false
			}
			pt := addr.Type().Underlying().(*types.Pointer).Elem()
			return rowMod{prefix: "[]" + typeKey(sl.Elem()) + strings.Join(path, ""), typ: pt, root: a.X, arr: true}, true
		default:
			return rowMod{}, false
		}
	}
}
