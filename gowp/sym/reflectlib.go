package sym

import (
	"go/types"

	"golang.org/x/tools/go/ssa"

	"gowp/smt"
)

// Assumed contracts of reflect.Value as used through xreflect.Value (the trust boundary; the
// Forward indirection of xreflect for emulated recursive types is not modelled).
//
// A reflect.Value v is an opaque scalar. If it is settable it denotes a cell whose content lives in
// the ghost heap keys rcell#int, rcell#uint, rcell#float, rcell#cre/#cim, rcell#str, rcell#bool
// (arrays indexed by v); rkind(v) is the kind of the cell:
//
//	v.Int()      = rcell#int[v]                       (already sign-extended to 64 bits)
//	v.SetInt(x)  : rcell#int[v] := wrap(x, rkind(v))   (truncate to the cell's width, sign-extend)
//
// and likewise for Uint/Float/Complex/String/Bool. reflect.ValueOf(i) is rv_of(typ, payload); its
// accessors are the pure functions iface_int(typ, payload) etc.

const (
	kBool = 1 + iota
	kInt
	kInt8
	kInt16
	kInt32
	kInt64
	kUint
	kUint8
	kUint16
	kUint32
	kUint64
	kUintptr
	kFloat32
	kFloat64
	kComplex64
	kComplex128
)
const kString = 24

var kindNames = map[uint64]string{1: "Bool", 2: "Int", 3: "Int8", 4: "Int16", 5: "Int32", 6: "Int64", 7: "Uint", 8: "Uint8", 9: "Uint16", 10: "Uint32", 11: "Uint64", 12: "Uintptr", 13: "Float32", 14: "Float64", 15: "Complex64", 16: "Complex128", 17: "Array", 18: "Chan", 19: "Func", 20: "Interface", 21: "Map", 22: "Ptr", 23: "Slice", 24: "String", 25: "Struct", 26: "UnsafePointer"}

// KindType maps a reflect.Kind of the 17 optimised kinds to its Go basic type.
func KindType(k uint64) types.Type {
	switch k {
	case kBool:
		return types.Typ[types.Bool]
	case kInt:
		return types.Typ[types.Int]
	case kInt8:
		return types.Typ[types.Int8]
	case kInt16:
		return types.Typ[types.Int16]
	case kInt32:
		return types.Typ[types.Int32]
	case kInt64:
		return types.Typ[types.Int64]
	case kUint:
		return types.Typ[types.Uint]
	case kUint8:
		return types.Typ[types.Uint8]
	case kUint16:
		return types.Typ[types.Uint16]
	case kUint32:
		return types.Typ[types.Uint32]
	case kUint64:
		return types.Typ[types.Uint64]
	case kUintptr:
		return types.Typ[types.Uintptr]
	case kFloat32:
		return types.Typ[types.Float32]
	case kFloat64:
		return types.Typ[types.Float64]
	case kComplex64:
		return types.Typ[types.Complex64]
	case kComplex128:
		return types.Typ[types.Complex128]
	case kString:
		return types.Typ[types.String]
	}
	return nil
}

func kindCategory(k uint64) string {
	switch {
	case k == kBool:
		return "bool"
	case k >= kInt && k <= kInt64:
		return "int"
	case k >= kUint && k <= kUintptr:
		return "uint"
	case k == kFloat32 || k == kFloat64:
		return "float"
	case k == kComplex64 || k == kComplex128:
		return "complex"
	case k == kString:
		return "str"
	}
	return ""
}

var rvSort = smt.Un("O_reflect_Value")

func (x *Exec) rkind(v *smt.Term) *smt.Term { return x.B.UF("rkind", I64, v) }

func rvOf(a Value) *smt.Term {
	switch v := a.(type) {
	case *smt.Term:
		return v
	case *Struct:
		if len(v.Fields) == 1 {
			return rvOf(v.Fields[0])
		}
	}
	unsupported("reflect value expected")
	return nil
}

// wrapInt: the value an integer cell of kind k holds after SetInt(x), as int64.
func (x *Exec) wrapInt(v *smt.Term, k *smt.Term, signed bool) *smt.Term {
	B := x.B
	// Division in 64 bits of operands that are extensions of w-bit values, truncated to w bits, is
	// the w-bit division (including MinInt / -1, which wraps in both). Bit-blasting a 64-bit divider
	// does not terminate in the time available, so the instance for this operation is assumed
	// (listed in trusted_base; the same fact at 8/16 bits is proved by the solvers in the self-test).
	switch v.Op {
	case "bvsdiv", "bvsrem", "bvudiv", "bvurem":
		sg := v.Op == "bvsdiv" || v.Op == "bvsrem"
		if v.S.W == 64 && sg == signed {
			p, q := v.Args[0], v.Args[1]
			x.note("math lemma (assumed): w-bit integer division/remainder equals the truncation of the 64-bit one on sign/zero-extended operands")
			for _, w := range []int{8, 16, 32} {
				a, b := B.Extract(w-1, 0, p), B.Extract(w-1, 0, q)
				var pe, qe *smt.Term
				if signed {
					pe, qe = B.SignExt(64-w, a), B.SignExt(64-w, b)
				} else {
					pe, qe = B.ZeroExt(64-w, a), B.ZeroExt(64-w, b)
				}
				x.assumeGlobal(B.Implies(B.And(B.Eq(p, pe), B.Eq(q, qe)), B.Eq(B.Extract(w-1, 0, v), B.BVBin(v.Op, a, b))))
			}
		}
	}
	ext := func(w int) *smt.Term {
		if signed {
			return B.SignExt(64-w, B.Extract(w-1, 0, v))
		}
		return B.ZeroExt(64-w, B.Extract(w-1, 0, v))
	}
	kc := func(n uint64) *smt.Term { return B.Eq(k, B.BVC(n, 64)) }
	if signed {
		return B.Ite(kc(kInt8), ext(8), B.Ite(kc(kInt16), ext(16), B.Ite(kc(kInt32), ext(32), v)))
	}
	return B.Ite(kc(kUint8), ext(8), B.Ite(kc(kUint16), ext(16), B.Ite(kc(kUint32), ext(32), v)))
}

func (x *Exec) wrapFloat(v *smt.Term, k *smt.Term) *smt.Term {
	x.doubleRoundLemma(v)
	return x.B.Ite(x.B.Eq(k, x.B.BVC(kFloat32, 64)), x.B.FPConv(x.B.FPConv(v, smt.FP32), smt.FP64), v)
}

func (x *Exec) doubleRoundLemma(v *smt.Term) {
	B := x.B
	// Double rounding binary64 -> binary32 is innocuous for + - * / (Figueroa 1995): if both operands
	// are exact widenings of binary32 values a, b then float32(a64 op b64) == a op32 b.  The solvers
	// need minutes to prove it; the instance for this operation is assumed (listed in trusted_base).
	switch v.Op {
	case "fp.add", "fp.sub", "fp.mul", "fp.div":
		if v.S == smt.FP64 && len(v.Args) == 2 {
			p, q := v.Args[0], v.Args[1]
			a, b := B.FPConv(p, smt.FP32), B.FPConv(q, smt.FP32)
			x.note("math lemma (assumed): double rounding binary64->binary32 is innocuous for + - * / on operands that are binary32 values (Figueroa 1995)")
			x.assumeGlobal(B.Implies(B.And(B.Eq(p, B.FPConv(a, smt.FP64)), B.Eq(q, B.FPConv(b, smt.FP64))),
				B.Eq(B.FPConv(v, smt.FP32), B.FPBin(v.Op, a, b))))
		}
	}
}

func (x *Exec) rcell(st *State, cat string, s *smt.Sort) *smt.Term {
	return x.heapGet(st, "rcell#"+cat, smt.Array(rvSort, s))
}

func (x *Exec) registerReflect() {
	B := x.B
	xv := "(github.com/cosmos72/gomacro/xreflect.Value)."
	get := func(cat string, s *smt.Sort, pure string) *libFn {
		return &libFn{apply: func(f *Frame, st *State, ins ssa.Instruction, args []Value) (Value, bool) {
			x.note("library spec: reflect.Value accessors Int/Uint/Float/Complex/String/Bool read the cell in the accessor's category; setters truncate to the cell's kind (xreflect.Forward not modelled)")
			v := rvOf(args[0])
			if v.Op == "uf" && v.Name == "rv_of" {
				if cat == "complex" {
					return &Struct{[]Value{B.UF("iface_cre", smt.FP64, v.Args...), B.UF("iface_cim", smt.FP64, v.Args...)}}, true
				}
				return B.UF(pure, s, v.Args...), true
			}
			if cat == "complex" {
				return &Struct{[]Value{B.Select(x.rcell(st, "cre", smt.FP64), v), B.Select(x.rcell(st, "cim", smt.FP64), v)}}, true
			}
			return B.Select(x.rcell(st, cat, s), v), true
		}, mods: noMods}
	}
	x.lib[xv+"Int"] = get("int", I64, "iface_int")
	x.lib[xv+"Uint"] = get("uint", I64, "iface_uint")
	x.lib[xv+"Float"] = get("float", smt.FP64, "iface_float")
	x.lib[xv+"Complex"] = get("complex", smt.FP64, "")
	x.lib[xv+"String"] = get("str", StrS, "iface_str")
	x.lib[xv+"Bool"] = get("bool", smt.Bool, "iface_bool")
	set := func(cat string) *libFn {
		return &libFn{apply: func(f *Frame, st *State, ins ssa.Instruction, args []Value) (Value, bool) {
			v := rvOf(args[0])
			k := x.rkind(v)
			switch cat {
			case "int":
				a := x.rcell(st, "int", I64)
				x.heapSet(st, "rcell#int", B.Store(a, v, x.wrapInt(args[1].(*smt.Term), k, true)))
			case "uint":
				a := x.rcell(st, "uint", I64)
				x.heapSet(st, "rcell#uint", B.Store(a, v, x.wrapInt(args[1].(*smt.Term), k, false)))
			case "float":
				a := x.rcell(st, "float", smt.FP64)
				x.heapSet(st, "rcell#float", B.Store(a, v, x.wrapFloat(args[1].(*smt.Term), k)))
			case "complex":
				c := args[1].(*Struct)
				is64 := B.Eq(k, B.BVC(kComplex64, 64))
				w := func(t *smt.Term) *smt.Term {
					x.doubleRoundLemma(t)
					return B.Ite(is64, B.FPConv(B.FPConv(t, smt.FP32), smt.FP64), t)
				}
				x.heapSet(st, "rcell#cre", B.Store(x.rcell(st, "cre", smt.FP64), v, w(c.Fields[0].(*smt.Term))))
				x.heapSet(st, "rcell#cim", B.Store(x.rcell(st, "cim", smt.FP64), v, w(c.Fields[1].(*smt.Term))))
			case "str":
				x.heapSet(st, "rcell#str", B.Store(x.rcell(st, "str", StrS), v, args[1].(*smt.Term)))
			case "bool":
				x.heapSet(st, "rcell#bool", B.Store(x.rcell(st, "bool", smt.Bool), v, args[1].(*smt.Term)))
			}
			return &Struct{}, true
		}, mods: func(*ssa.CallCommon) []string { return []string{"rcell#"} }}
	}
	x.lib[xv+"SetInt"] = set("int")
	x.lib[xv+"SetUint"] = set("uint")
	x.lib[xv+"SetFloat"] = set("float")
	x.lib[xv+"SetComplex"] = set("complex")
	x.lib[xv+"SetString"] = set("str")
	x.lib[xv+"SetBool"] = set("bool")
	x.lib["github.com/cosmos72/gomacro/xreflect.ValueOf"] = &libFn{apply: func(f *Frame, st *State, ins ssa.Instruction, args []Value) (Value, bool) {
		i := args[0].(*Struct)
		rv := B.UF("rv_of", rvSort, i.Fields[0].(*smt.Term), x.scalar(i.Fields[1], nil))
		// an interface holding a value of a predeclared basic type has that type's kind
		typ := i.Fields[0].(*smt.Term)
		for k := uint64(kBool); k <= kString; k++ {
			if t := KindType(k); t != nil {
				x.assumeGlobal(B.Implies(B.Eq(typ, x.typeID(t)), B.Eq(x.rkind(rv), B.BVC(k, 64))))
			}
		}
		return &Struct{[]Value{rv}}, true
	}, mods: noMods}
	x.lib["(github.com/cosmos72/gomacro/xreflect.Type).Kind"] = &libFn{apply: func(f *Frame, st *State, ins ssa.Instruction, args []Value) (Value, bool) {
		return x.xtypeKind(args[0]), true
	}, mods: noMods}
	x.lib[xv+"Kind"] = &libFn{apply: func(f *Frame, st *State, ins ssa.Instruction, args []Value) (Value, bool) {
		return x.rkind(rvOf(args[0])), true
	}, mods: noMods}
	x.lib[xv+"IsValid"] = &libFn{apply: func(f *Frame, st *State, ins ssa.Instruction, args []Value) (Value, bool) {
		return B.UF("rvalid", smt.Bool, rvOf(args[0])), true
	}, mods: noMods}
}

// ifaceConst gives the K-typed constant stored in an interface value (spec side of
// K(xr.ValueOf(i).Int()) and friends).
func (x *Exec) ifaceConst(iface *Struct, k uint64) Value {
	B := x.B
	typ := iface.Fields[0].(*smt.Term)
	pay := x.scalar(iface.Fields[1], nil)
	t := KindType(k)
	switch kindCategory(k) {
	case "bool":
		return B.UF("iface_bool", smt.Bool, typ, pay)
	case "int":
		return B.Extract(basicSort(t.(*types.Basic)).W-1, 0, B.UF("iface_int", I64, typ, pay))
	case "uint":
		return B.Extract(basicSort(t.(*types.Basic)).W-1, 0, B.UF("iface_uint", I64, typ, pay))
	case "float":
		return B.FPConv(B.UF("iface_float", smt.FP64, typ, pay), basicSort(t.(*types.Basic)))
	case "complex":
		s := smt.FP64
		if k == kComplex64 {
			s = smt.FP32
		}
		return &Struct{[]Value{B.FPConv(B.UF("iface_cre", smt.FP64, typ, pay), s), B.FPConv(B.UF("iface_cim", smt.FP64, typ, pay), s)}}
	case "str":
		r := B.UF("iface_str", StrS, typ, pay)
		// an interface holding a value of the predeclared type string holds that string
		x.assumeGlobal(B.Implies(B.Eq(typ, x.typeID(types.Typ[types.String])), B.Eq(r, B.UF("unbox_Str", StrS, pay))))
		return r
	}
	unsupported("constant of kind %d", k)
	return nil
}
