package sym

func (x *Exec) registerReflect() {}
