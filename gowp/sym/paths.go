package sym

import (
	"golang.org/x/tools/go/ssa"

	"gowp/smt"
)

const maxPaths = 4000

// runPaths explores a loop-free function path by path: no state is merged at joins, so every
// value on a path is free of ite-selectors. Used for the compile functions of closure families,
// whose closure-creation sites are reached by few paths each.
func (f *Frame) runPaths(st0 *State) *RunResult {
	fn := f.fn
	x := f.x
	var walk func(b, from *ssa.BasicBlock, st *State)
	walk = func(b, from *ssa.BasicBlock, st *State) {
		if st.Dead || st.PC.IsFalse() {
			return
		}
		f.pathCount++
		if f.pathCount > maxPaths {
			unsupported("more than %d paths in %s", maxPaths, FuncName(fn))
		}
		f.cur = b
		for i, instr := range b.Instrs {
			f.curIdx = i
			if phi, ok := instr.(*ssa.Phi); ok {
				f.regs[phi] = f.val(phi.Edges[predIndex(b, from)])
				continue
			}
			if !f.step(st, instr) {
				return
			}
			if st.PC.IsFalse() {
				return
			}
		}
		last := b.Instrs[len(b.Instrs)-1]
		switch t := last.(type) {
		case *ssa.If:
			c := f.val(t.Cond).(*smt.Term)
			sT := st.clone()
			sT.PC = x.B.And(st.PC, c)
			sF := st.clone()
			sF.PC = x.B.And(st.PC, x.B.Not(c))
			// registers defined below this block are recomputed on each path; snapshot and restore
			// is unnecessary because SSA values are only read on paths that define them
			walk(b.Succs[0], b, sT)
			walk(b.Succs[1], b, sF)
		case *ssa.Jump:
			walk(b.Succs[0], b, st)
		case *ssa.Return:
			var rs []Value
			for _, r := range t.Results {
				rs = append(rs, f.val(r))
			}
			f.rets = append(f.rets, exitRec{st: st, results: rs, where: f.where(t), kind: "return", blk: t.Block()})
		case *ssa.Panic:
			if f.panicHook != nil {
				f.panicHook(st, "panic", t)
			} else {
				f.panics = append(f.panics, exitRec{st: st, where: f.where(t), panicV: f.val(t.X), kind: "panic"})
			}
		default:
			unsupported("terminator %T", last)
		}
	}
	walk(fn.Blocks[0], nil, st0)
	res := &RunResult{Rets: f.rets, Panics: f.panics}
	var sts []*State
	for _, r := range f.rets {
		sts = append(sts, r.st)
	}
	res.Out = x.mergeStates(sts)
	if len(f.rets) > 0 {
		res.Results = f.rets[0].results
	}
	return res
}
