package sym

import (
	"fmt"
	"go/token"
	"go/types"

	"golang.org/x/tools/go/ssa"

	"gowp/smt"
)

func (f *Frame) allocIsObject(a *ssa.Alloc) bool {
	t := a.Type().(*types.Pointer).Elem()
	if !a.Heap {
		return false
	}
	if _, ok := t.Underlying().(*types.Struct); ok && !isOpaqueStruct(t) {
		// a heap-allocated struct becomes a first-class object (its address may be stored)
		return true
	}
	return false
}

// step executes one non-phi, non-terminator instruction. It returns false when the path ends.
func (f *Frame) step(st *State, instr ssa.Instruction) bool {
	x := f.x
	B := x.B
	switch ins := instr.(type) {
	case *ssa.DebugRef:
		return true
	case *ssa.If, *ssa.Jump, *ssa.Return, *ssa.Panic:
		return true
	case *ssa.Alloc:
		t := ins.Type().(*types.Pointer).Elem()
		if f.allocIsObject(ins) {
			ref := x.allocRef(st, "new_"+shortType(t))
			p := &Ptr{Ref: ref, Key: derefKey(t), Type: t}
			x.store(st, p, t, x.zeroValue(t))
			f.regs[ins] = ref
			return true
		}
		x.cellN++
		name := ins.Comment
		if name == "" {
			name = ins.Name()
		}
		c := &Cell{ID: x.cellN, Name: name, Type: t}
		st.cells[c] = x.zeroValue(t)
		f.regs[ins] = &Ptr{Cell: c, Type: t}
		return true
	case *ssa.UnOp:
		f.regs[ins] = f.unop(st, ins)
		return true
	case *ssa.BinOp:
		f.regs[ins] = f.binop(st, ins, ins.Op, f.val(ins.X), f.val(ins.Y), ins.X.Type(), ins.Y.Type())
		return !st.PC.IsFalse()
	case *ssa.Store:
		pt := ins.Addr.Type().Underlying().(*types.Pointer).Elem()
		x.nilCheck(f, st, ins, f.val(ins.Addr))
		if a, ok := f.val(ins.Addr).(*Ptr); !ok || a.Cell == nil {
			x.shareValue(f.val(ins.Val))
		}
		x.store(st, f.val(ins.Addr), pt, f.val(ins.Val))
		return true
	case *ssa.FieldAddr:
		base := f.val(ins.X)
		stT := ins.X.Type().Underlying().(*types.Pointer).Elem()
		x.nilCheck(f, st, ins, base)
		f.regs[ins] = x.fieldAddr(base, stT, ins.Field)
		return true
	case *ssa.Field:
		s := f.val(ins.X)
		ss, ok := s.(*Struct)
		if !ok {
			unsupported("field of opaque struct value %s", ins.X.Type())
		}
		f.regs[ins] = ss.Fields[ins.Field]
		return true
	case *ssa.IndexAddr:
		f.regs[ins] = f.indexAddr(st, ins)
		return !st.PC.IsFalse()
	case *ssa.Index:
		f.regs[ins] = f.indexVal(st, ins)
		return !st.PC.IsFalse()
	case *ssa.Slice:
		f.regs[ins] = f.sliceOp(st, ins)
		return !st.PC.IsFalse()
	case *ssa.MakeSlice:
		f.regs[ins] = f.makeSlice(st, ins)
		return !st.PC.IsFalse()
	case *ssa.Phi:
		return true
	case *ssa.Convert:
		f.regs[ins] = f.convert(st, ins)
		return true
	case *ssa.ChangeType:
		f.regs[ins] = f.val(ins.X)
		return true
	case *ssa.ChangeInterface:
		f.regs[ins] = f.val(ins.X)
		return true
	case *ssa.MakeInterface:
		if lit, ok := ins.X.(*ssa.Function); ok && x.OnFuncValue != nil {
			x.OnFuncValue(f, st, lit)
		}
		v := f.val(ins.X)
		f.regs[ins] = &Struct{[]Value{x.typeID(ins.X.Type()), x.box(v, ins.X.Type())}}
		return true
	case *ssa.TypeAssert:
		f.regs[ins] = f.typeAssert(st, ins)
		return !st.PC.IsFalse()
	case *ssa.Extract:
		t := f.val(ins.Tuple)
		f.regs[ins] = t.(*Struct).Fields[ins.Index]
		return true
	case *ssa.MakeClosure:
		fn := ins.Fn.(*ssa.Function)
		c := &Closure{Fn: fn, At: st}
		for _, b := range ins.Bindings {
			c.Binds = append(c.Binds, f.val(b))
		}
		x.closN++
		c.ID = B.IntC(int64(100000 + x.closN))
		x.idFn[c.ID] = c
		f.regs[ins] = c
		if x.OnMakeClosure != nil {
			x.OnMakeClosure(f, st, ins, c)
		}
		return true
	case *ssa.Call:
		v, ok := f.call(st, ins, &ins.Call)
		if !ok {
			return false
		}
		f.regs[ins] = v
		return !st.PC.IsFalse()
	case *ssa.Defer:
		d := deferRec{call: ins, fn: nil, pc: st.PC}
		if !ins.Call.IsInvoke() {
			d.fn = f.val(ins.Call.Value)
		}
		for _, a := range ins.Call.Args {
			d.args = append(d.args, f.val(a))
		}
		for _, li := range f.loops {
			if li.blocks[f.cur] {
				d.repeated = true
			}
		}
		if !d.repeated {
			for _, o := range f.defers {
				if o.repeated {
					unsupported("defer after a loop that registers deferred calls")
				}
			}
		} else {
			for _, o := range f.defers {
				if o.call == ins {
					return true // the loop body is executed once per cut; one record is enough
				}
			}
			d.pc = x.B.True()
		}
		f.defers = append(f.defers, d)
		return true
	case *ssa.RunDefers:
		f.sawRepeated = false
		if !f.runDefers(st, false) {
			return false
		}
		if f.sawRepeated {
			f.sawRepeated = false
			f.exitPanic(st.clone(), "a deferred call registered in a loop may panic", ins, f.panicValue())
		}
		return true
	case *ssa.MakeMap:
		ref := x.allocRef(st, "map")
		mt := ins.Type().Underlying().(*types.Map)
		x.mapInit(st, mt, ref)
		f.regs[ins] = ref
		return true
	case *ssa.MapUpdate:
		x.mapUpdate(f, st, ins)
		return !st.PC.IsFalse()
	case *ssa.Lookup:
		f.regs[ins] = x.lookup(f, st, ins)
		return !st.PC.IsFalse()
	case *ssa.MakeChan:
		f.regs[ins] = x.allocRef(st, "chan")
		return true
	case *ssa.Range:
		f.regs[ins] = x.rangeInit(f, st, ins)
		return true
	case *ssa.Next:
		f.regs[ins] = x.rangeNext(f, st, ins)
		return true
	case *ssa.Send, *ssa.Select, *ssa.Go:
		unsupported("%T (channels and goroutines are outside the subset)", instr)
	case *ssa.SliceToArrayPointer:
		unsupported("slice to array pointer")
	}
	unsupported("instruction %T", instr)
	return false
}

func shortType(t types.Type) string {
	return types.TypeString(t, func(*types.Package) string { return "" })
}

// allocRef returns a fresh non-nil reference distinct from every live one.
func (x *Exec) allocRef(st *State, what string) *smt.Term {
	B := x.B
	r := B.Fresh(what, RefS)
	live := x.heapGet(st, "$live", smt.Array(RefS, smt.Bool))
	st.PC = B.And(st.PC, B.Not(B.Select(live, r)), B.IntOp(">", r, B.IntC(0)))
	x.heapSet(st, "$live", B.Store(live, r, B.True()))
	return r
}

// assumeLive: a reference read from memory or received as a parameter is nil or allocated.
func (x *Exec) assumeLive(st *State, r *smt.Term) {
	if r.IsConst() {
		return
	}
	B := x.B
	live := x.heapGet(st, "$live", smt.Array(RefS, smt.Bool))
	st.PC = B.And(st.PC, B.Or(B.Eq(r, B.IntC(0)), B.Select(live, r)))
}

func (x *Exec) fieldAddr(base Value, stT types.Type, field int) Value {
	fld := stT.Underlying().(*types.Struct).Field(field)
	switch b := base.(type) {
	case *smt.Term:
		return &Ptr{Ref: b, Key: typeKey(stT) + "." + fld.Name(), Type: fld.Type()}
	case *Ptr:
		n := *b
		n.Type = fld.Type()
		if b.Cell != nil {
			n.Path = append(append([]step{}, b.Path...), step{field: field})
			return &n
		}
		n.Key = b.Key + "." + fld.Name()
		return &n
	}
	unsupported("field address of %T", base)
	return nil
}

func (x *Exec) nilCheck(f *Frame, st *State, ins ssa.Instruction, p Value) {
	t, ok := p.(*smt.Term)
	if !ok || t.S != RefS {
		return
	}
	B := x.B
	nn := B.Neq(t, B.IntC(0))
	if f.wantSafety() {
		x.oblige("safety-nil", "nil dereference", f.where(ins), st, nn)
	}
	st.PC = B.And(st.PC, nn)
}

func (f *Frame) wantSafety() bool {
	if f.x.famSafety {
		return true // the closures of a family whose contract is flagged "safety"
	}
	for fr := f; fr != nil; fr = fr.caller {
		if fr.top {
			return fr.spec != nil && fr.spec.Flags["safety"]
		}
	}
	return false
}

func (f *Frame) boundsCheck(st *State, ins ssa.Instruction, what string, cond *smt.Term) {
	x := f.x
	if f.wantSafety() {
		x.oblige("safety-"+what, what, f.where(ins), st, cond)
	}
	st.PC = x.B.And(st.PC, cond)
}

func (f *Frame) unop(st *State, ins *ssa.UnOp) Value {
	x := f.x
	B := x.B
	v := f.val(ins.X)
	switch ins.Op {
	case token.MUL: // load
		pt := ins.X.Type().Underlying().(*types.Pointer).Elem()
		x.nilCheck(f, st, ins, v)
		r := x.load(st, v, pt)
		if t, ok := r.(*smt.Term); ok && t.S == RefS {
			if _, isPtr := pt.Underlying().(*types.Pointer); isPtr {
				x.assumeLive(st, t)
			}
		}
		return r
	case token.NOT:
		return B.Not(v.(*smt.Term))
	case token.SUB:
		switch t := v.(type) {
		case *smt.Term:
			if t.S.K == smt.KFP {
				return B.FPNeg(t)
			}
			return B.BVNeg(t)
		case *Struct: // complex
			return &Struct{[]Value{B.FPNeg(t.Fields[0].(*smt.Term)), B.FPNeg(t.Fields[1].(*smt.Term))}}
		}
	case token.XOR:
		return B.BVNot(v.(*smt.Term))
	case token.ARROW:
		unsupported("channel receive")
	}
	unsupported("unary %s", ins.Op)
	return nil
}

func (f *Frame) binop(st *State, ins ssa.Instruction, op token.Token, xv, yv Value, xt, yt types.Type) Value {
	x := f.x
	B := x.B
	ut := xt.Underlying()
	// comparisons of non-scalar things
	switch op {
	case token.EQL, token.NEQ:
		var eq *smt.Term
		if b, ok := ut.(*types.Basic); ok && b.Info()&types.IsFloat != 0 {
			eq = B.FPCmp("fp.eq", xv.(*smt.Term), yv.(*smt.Term))
		} else if ok && b.Info()&types.IsComplex != 0 {
			xs, ys := xv.(*Struct), yv.(*Struct)
			eq = B.And(B.FPCmp("fp.eq", xs.Fields[0].(*smt.Term), ys.Fields[0].(*smt.Term)), B.FPCmp("fp.eq", xs.Fields[1].(*smt.Term), ys.Fields[1].(*smt.Term)))
		} else if _, isIface := ut.(*types.Interface); isIface {
			eq = x.ifaceEq(xv, yv)
		} else if _, isSlice := ut.(*types.Slice); isSlice {
			// only comparison with nil is legal
			s := xv.(*Struct)
			o := yv.(*Struct)
			eq = B.Eq(s.Fields[0].(*smt.Term), o.Fields[0].(*smt.Term))
		} else {
			eq = x.eqValue(xv, yv)
		}
		if op == token.NEQ {
			return B.Not(eq)
		}
		return eq
	}
	b, ok := ut.(*types.Basic)
	if !ok {
		unsupported("binary %s on %s", op, xt)
	}
	info := b.Info()
	switch {
	case info&types.IsString != 0:
		xs, ys := xv.(*smt.Term), yv.(*smt.Term)
		switch op {
		case token.ADD:
			return x.strConcat(xs, ys)
		case token.LSS:
			return x.strLess(xs, ys)
		case token.GTR:
			return x.strLess(ys, xs)
		case token.LEQ:
			return B.Not(x.strLess(ys, xs))
		case token.GEQ:
			return B.Not(x.strLess(xs, ys))
		}
	case info&types.IsBoolean != 0:
		xs, ys := xv.(*smt.Term), yv.(*smt.Term)
		switch op {
		case token.AND, token.LAND:
			return B.And(xs, ys)
		case token.OR, token.LOR:
			return B.Or(xs, ys)
		}
	case info&types.IsFloat != 0:
		xs, ys := xv.(*smt.Term), yv.(*smt.Term)
		switch op {
		case token.ADD:
			return B.FPBin("fp.add", xs, ys)
		case token.SUB:
			return B.FPBin("fp.sub", xs, ys)
		case token.MUL:
			return B.FPBin("fp.mul", xs, ys)
		case token.QUO:
			return B.FPBin("fp.div", xs, ys)
		case token.LSS:
			return B.FPCmp("fp.lt", xs, ys)
		case token.LEQ:
			return B.FPCmp("fp.leq", xs, ys)
		case token.GTR:
			return B.FPCmp("fp.gt", xs, ys)
		case token.GEQ:
			return B.FPCmp("fp.geq", xs, ys)
		}
	case info&types.IsComplex != 0:
		return x.complexOp(op, xv.(*Struct), yv.(*Struct), b.Kind() == types.Complex64)
	case info&types.IsInteger != 0:
		xs, ys := xv.(*smt.Term), yv.(*smt.Term)
		sg := info&types.IsUnsigned == 0
		w := xs.S.W
		switch op {
		case token.ADD:
			return B.BVBin("bvadd", xs, ys)
		case token.SUB:
			return B.BVBin("bvsub", xs, ys)
		case token.MUL:
			return B.BVBin("bvmul", xs, ys)
		case token.QUO, token.REM:
			nz := B.Neq(ys, B.BVC(0, w))
			f.divCheck(st, ins, nz)
			o := map[token.Token]string{token.QUO: "bvudiv", token.REM: "bvurem"}[op]
			if sg {
				o = map[token.Token]string{token.QUO: "bvsdiv", token.REM: "bvsrem"}[op]
			}
			return B.BVBin(o, xs, ys)
		case token.AND:
			return B.BVBin("bvand", xs, ys)
		case token.OR:
			return B.BVBin("bvor", xs, ys)
		case token.XOR:
			return B.BVBin("bvxor", xs, ys)
		case token.AND_NOT:
			return B.BVBin("bvand", xs, B.BVNot(ys))
		case token.SHL, token.SHR:
			return f.shift(st, ins, op, xs, ys, sg, isSigned(yt))
		case token.LSS, token.LEQ, token.GTR, token.GEQ:
			o := map[token.Token]string{token.LSS: "bvult", token.LEQ: "bvule", token.GTR: "bvugt", token.GEQ: "bvuge"}[op]
			if sg {
				o = map[token.Token]string{token.LSS: "bvslt", token.LEQ: "bvsle", token.GTR: "bvsgt", token.GEQ: "bvsge"}[op]
			}
			return B.BVCmp(o, xs, ys)
		}
	}
	unsupported("binary %s on %s", op, xt)
	return nil
}

// divCheck: integer division by zero panics.
func (f *Frame) divCheck(st *State, ins ssa.Instruction, nz *smt.Term) {
	x := f.x
	if f.panicHook != nil {
		ps := st.clone()
		ps.PC = x.B.And(st.PC, x.B.Not(nz))
		if !ps.PC.IsFalse() {
			f.panicHook(ps, "divide", ins)
		}
	}
	f.boundsCheck(st, ins, "div-by-zero", nz)
}

// shift implements Go's shift semantics: count >= width gives 0 (or sign fill); negative signed count panics.
func (f *Frame) shift(st *State, ins ssa.Instruction, op token.Token, xs, ys *smt.Term, xsigned, ysigned bool) *smt.Term {
	x := f.x
	B := x.B
	w := xs.S.W
	yw := ys.S.W
	if ysigned {
		nonneg := B.BVCmp("bvsle", B.BVC(0, yw), ys)
		if f.panicHook != nil {
			ps := st.clone()
			ps.PC = B.And(st.PC, B.Not(nonneg))
			if !ps.PC.IsFalse() {
				f.panicHook(ps, "negative shift", ins)
			}
		}
		f.boundsCheck(st, ins, "negative-shift", nonneg)
	}
	return x.shiftTerm(op, xs, ys, xsigned, w, yw)
}

func (x *Exec) shiftTerm(op token.Token, xs, ys *smt.Term, xsigned bool, w, yw int) *smt.Term {
	B := x.B
	// big := count >= w (unsigned compare in the count's own width)
	var big *smt.Term
	if yw > 7 || (1<<uint(yw)) > w {
		big = B.BVCmp("bvuge", ys, B.BVC(uint64(w), yw))
	} else {
		big = B.False()
	}
	var cnt *smt.Term
	switch {
	case yw == w:
		cnt = ys
	case yw < w:
		cnt = B.ZeroExt(w-yw, ys)
	default:
		cnt = B.Extract(w-1, 0, ys)
	}
	switch {
	case op == token.SHL:
		return B.Ite(big, B.BVC(0, w), B.BVBin("bvshl", xs, cnt))
	case xsigned:
		return B.Ite(big, B.BVBin("bvashr", xs, B.BVC(uint64(w-1), w)), B.BVBin("bvashr", xs, cnt))
	default:
		return B.Ite(big, B.BVC(0, w), B.BVBin("bvlshr", xs, cnt))
	}
}

// complexOp models what cmd/compile executes: + - componentwise; * by the four-product formula;
// complex64 * and / widened to float64; / is left uninterpreted-but-deterministic (runtime.complex128div).
func (x *Exec) complexOp(op token.Token, a, b *Struct, is64 bool) Value {
	B := x.B
	ar, ai := a.Fields[0].(*smt.Term), a.Fields[1].(*smt.Term)
	br, bi := b.Fields[0].(*smt.Term), b.Fields[1].(*smt.Term)
	switch op {
	case token.ADD:
		return &Struct{[]Value{B.FPBin("fp.add", ar, br), B.FPBin("fp.add", ai, bi)}}
	case token.SUB:
		return &Struct{[]Value{B.FPBin("fp.sub", ar, br), B.FPBin("fp.sub", ai, bi)}}
	case token.MUL:
		if is64 {
			war, wai, wbr, wbi := B.FPConv(ar, smt.FP64), B.FPConv(ai, smt.FP64), B.FPConv(br, smt.FP64), B.FPConv(bi, smt.FP64)
			re := B.FPBin("fp.sub", B.FPBin("fp.mul", war, wbr), B.FPBin("fp.mul", wai, wbi))
			im := B.FPBin("fp.add", B.FPBin("fp.mul", war, wbi), B.FPBin("fp.mul", wai, wbr))
			return &Struct{[]Value{B.FPConv(re, smt.FP32), B.FPConv(im, smt.FP32)}}
		}
		re := B.FPBin("fp.sub", B.FPBin("fp.mul", ar, br), B.FPBin("fp.mul", ai, bi))
		im := B.FPBin("fp.add", B.FPBin("fp.mul", ar, bi), B.FPBin("fp.mul", ai, br))
		return &Struct{[]Value{re, im}}
	case token.QUO:
		x.note("complex division: runtime.complex128div as an uninterpreted deterministic function; complex64 division is computed in complex128 and narrowed (as cmd/compile does)")
		if is64 {
			ar, ai, br, bi = B.FPConv(ar, smt.FP64), B.FPConv(ai, smt.FP64), B.FPConv(br, smt.FP64), B.FPConv(bi, smt.FP64)
		}
		re := B.UF("cdiv_re", smt.FP64, ar, ai, br, bi)
		im := B.UF("cdiv_im", smt.FP64, ar, ai, br, bi)
		if is64 {
			return &Struct{[]Value{B.FPConv(re, smt.FP32), B.FPConv(im, smt.FP32)}}
		}
		return &Struct{[]Value{re, im}}
	}
	unsupported("complex %s", op)
	return nil
}

func (f *Frame) convert(st *State, ins *ssa.Convert) Value {
	x := f.x
	v := f.val(ins.X)
	return x.convertValue(st, v, ins.X.Type(), ins.Type())
}

func (x *Exec) convertValue(st *State, v Value, from, to types.Type) Value {
	B := x.B
	fu, tu := from.Underlying(), to.Underlying()
	// pointer <-> unsafe.Pointer
	if isUnsafePtr(tu) {
		return v
	}
	if isUnsafePtr(fu) {
		if pt, ok := tu.(*types.Pointer); ok {
			if p, ok := v.(*Ptr); ok {
				n := *p
				if types.Identical(p.Type, pt.Elem()) && n.View == nil {
					return &n
				}
				if n.View != nil {
					// re-view of an already viewed location
					if types.Identical(p.Type, pt.Elem()) {
						n.View = nil
						return &n
					}
				}
				n.View = pt.Elem()
				return &n
			}
			return v
		}
		return v
	}
	fb, fok := fu.(*types.Basic)
	tb, tok := tu.(*types.Basic)
	if !fok || !tok {
		// string <-> []byte etc.
		if tok && tb.Info()&types.IsString != 0 {
			x.note("string(bytes/runes) conversion: uninterpreted")
			ls := x.toLeaves(v, from)
			return B.UF("str_of_slice", StrS, ls...)
		}
		if fok && fb.Info()&types.IsString != 0 {
			unsupported("conversion string -> %s", to)
		}
		return v
	}
	fi, ti := fb.Info(), tb.Info()
	switch {
	case fi&types.IsInteger != 0 && ti&types.IsInteger != 0:
		xs := v.(*smt.Term)
		fw, tw := xs.S.W, basicSort(tb).W
		switch {
		case tw == fw:
			return xs
		case tw < fw:
			return B.Extract(tw-1, 0, xs)
		case fi&types.IsUnsigned != 0:
			return B.ZeroExt(tw-fw, xs)
		default:
			return B.SignExt(tw-fw, xs)
		}
	case fi&types.IsFloat != 0 && ti&types.IsFloat != 0:
		return B.FPConv(v.(*smt.Term), basicSort(tb))
	case fi&types.IsInteger != 0 && ti&types.IsFloat != 0:
		return B.FPFromInt(v.(*smt.Term), fi&types.IsUnsigned == 0, basicSort(tb))
	case fi&types.IsFloat != 0 && ti&types.IsInteger != 0:
		x.note("float->integer conversion: uninterpreted (implementation-defined when out of range)")
		return B.UF(fmt.Sprintf("f2i_%d_%s", v.(*smt.Term).S.M, tb.Name()), basicSort(tb), v.(*smt.Term))
	case fi&types.IsComplex != 0 && ti&types.IsComplex != 0:
		s := v.(*Struct)
		ts := smt.FP64
		if tb.Kind() == types.Complex64 {
			ts = smt.FP32
		}
		return &Struct{[]Value{B.FPConv(s.Fields[0].(*smt.Term), ts), B.FPConv(s.Fields[1].(*smt.Term), ts)}}
	case fi&types.IsString != 0 && ti&types.IsString != 0:
		return v
	case fi&types.IsInteger != 0 && ti&types.IsString != 0:
		return B.UF("str_of_rune", StrS, B.SignExt(64-v.(*smt.Term).S.W, v.(*smt.Term)))
	case fi&types.IsBoolean != 0 && ti&types.IsBoolean != 0:
		return v
	}
	unsupported("conversion %s -> %s", from, to)
	return nil
}

func isUnsafePtr(t types.Type) bool {
	b, ok := t.(*types.Basic)
	return ok && b.Kind() == types.UnsafePointer
}

// ---------- slices, arrays, strings

func sliceParts(v Value) (arr, off, ln, cp *smt.Term) {
	s := v.(*Struct)
	return s.Fields[0].(*smt.Term), s.Fields[1].(*smt.Term), s.Fields[2].(*smt.Term), s.Fields[3].(*smt.Term)
}

func (f *Frame) inRange(st *State, ins ssa.Instruction, idx, ln *smt.Term) {
	B := f.x.B
	cond := B.And(B.BVCmp("bvsle", B.BVC(0, 64), idx), B.BVCmp("bvslt", idx, ln))
	if f.panicHook != nil {
		ps := st.clone()
		ps.PC = B.And(st.PC, B.Not(cond))
		if !ps.PC.IsFalse() {
			f.panicHook(ps, "index out of range", ins)
		}
	}
	f.boundsCheck(st, ins, "index", cond)
}

func (x *Exec) toInt64(v Value, t types.Type) *smt.Term {
	tm := v.(*smt.Term)
	if tm.S.W == 64 {
		return tm
	}
	if isSigned(t) {
		return x.B.SignExt(64-tm.S.W, tm)
	}
	return x.B.ZeroExt(64-tm.S.W, tm)
}

func (f *Frame) indexAddr(st *State, ins *ssa.IndexAddr) Value {
	x := f.x
	B := x.B
	base := f.val(ins.X)
	idx := x.toInt64(f.val(ins.Index), ins.Index.Type())
	switch t := ins.X.Type().Underlying().(type) {
	case *types.Slice:
		arr, off, ln, _ := sliceParts(base)
		f.inRange(st, ins, idx, ln)
		// (a slice with an element has an array: its element addresses are not nil)
		st.PC = B.And(st.PC, B.Neq(arr, B.IntC(0)))
		// a sub-slice s[c:] of a slice with offset o has offset o+c: index it as (o, c+idx), so that
		// its elements are the same terms as the elements of s (quantified invariants about s apply)
		if off.Op == "bvadd" && len(off.Args) == 2 {
			a0, a1 := off.Args[0], off.Args[1]
			if a0.IsConst() {
				a0, a1 = a1, a0
			}
			if a1.IsConst() && !a0.IsConst() {
				rel := B.BVBin("bvadd", idx, a1)
				return &Ptr{Arr: arr, Idx: B.IndexAdd(a0, rel), Off: a0, Rel: rel, Key: "[]" + typeKey(t.Elem()), Type: t.Elem()}
			}
		}
		return &Ptr{Arr: arr, Idx: B.IndexAdd(off, idx), Off: off, Rel: idx, Key: "[]" + typeKey(t.Elem()), Type: t.Elem()}
	case *types.Pointer:
		at := t.Elem().Underlying().(*types.Array)
		x.nilCheck(f, st, ins, base)
		f.inRange(st, ins, idx, B.BVC(uint64(at.Len()), 64))
		p := x.asPtr(base, t.Elem())
		n := *p
		n.Type = at.Elem()
		if p.Cell != nil {
			n.Path = append(append([]step{}, p.Path...), step{field: -1, index: idx})
			return &n
		}
		if p.Ref != nil {
			if p.SubIdx != nil {
				unsupported("nested arrays inside heap objects")
			}
			n.Key = p.Key + "[]"
			n.SubIdx = idx
			return &n
		}
		unsupported("index address through %s", p)
	}
	unsupported("IndexAddr on %s", ins.X.Type())
	return nil
}

func (f *Frame) indexVal(st *State, ins *ssa.Index) Value {
	x := f.x
	B := x.B
	base := f.val(ins.X)
	idx := x.toInt64(f.val(ins.Index), ins.Index.Type())
	switch t := ins.X.Type().Underlying().(type) {
	case *types.Basic: // string
		s := base.(*smt.Term)
		f.inRange(st, ins, idx, x.strLen(s))
		return x.strAt(s, idx)
	case *types.Array:
		f.inRange(st, ins, idx, B.BVC(uint64(t.Len()), 64))
		s := base.(*Struct)
		ls := flatten(t.Elem())
		ts := make([]*smt.Term, len(ls))
		for i := range ls {
			ts[i] = B.Select(s.Fields[i].(*smt.Term), idx)
		}
		return x.fromLeaves(t.Elem(), &ts)
	}
	unsupported("Index on %s", ins.X.Type())
	return nil
}

func (f *Frame) sliceOp(st *State, ins *ssa.Slice) Value {
	x := f.x
	B := x.B
	base := f.val(ins.X)
	zero := B.BVC(0, 64)
	get := func(v ssa.Value, def *smt.Term) *smt.Term {
		if v == nil {
			return def
		}
		return x.toInt64(f.val(v), v.Type())
	}
	switch t := ins.X.Type().Underlying().(type) {
	case *types.Slice:
		arr, off, ln, cp := sliceParts(base)
		lo := get(ins.Low, zero)
		hi := get(ins.High, ln)
		mx := get(ins.Max, cp)
		cond := B.And(B.BVCmp("bvsle", zero, lo), B.BVCmp("bvsle", lo, hi), B.BVCmp("bvsle", hi, mx), B.BVCmp("bvsle", mx, cp))
		f.sliceCheck(st, ins, cond)
		return &Struct{[]Value{arr, B.BVBin("bvadd", off, lo), B.BVBin("bvsub", hi, lo), B.BVBin("bvsub", mx, lo)}}
	case *types.Basic: // string
		s := base.(*smt.Term)
		ln := x.strLen(s)
		lo := get(ins.Low, zero)
		hi := get(ins.High, ln)
		cond := B.And(B.BVCmp("bvsle", zero, lo), B.BVCmp("bvsle", lo, hi), B.BVCmp("bvsle", hi, ln))
		f.sliceCheck(st, ins, cond)
		return x.strSub(s, lo, hi)
	case *types.Pointer:
		at := t.Elem().Underlying().(*types.Array)
		n := B.BVC(uint64(at.Len()), 64)
		lo := get(ins.Low, zero)
		hi := get(ins.High, n)
		mx := get(ins.Max, n)
		cond := B.And(B.BVCmp("bvsle", zero, lo), B.BVCmp("bvsle", lo, hi), B.BVCmp("bvsle", hi, mx), B.BVCmp("bvsle", mx, n))
		f.sliceCheck(st, ins, cond)
		p := x.asPtr(base, t.Elem())
		if p.Cell != nil && len(p.Path) == 0 {
			// slicing a local array (the varargs array of append, a local buffer): the array becomes
			// the backing store of the slice; model it as a fresh backing array holding its contents.
			// Later writes through the cell would not be seen through the slice: the cell is dropped.
			cur, ok := st.cells[p.Cell]
			if !ok {
				cur = x.zeroValue(p.Cell.Type)
			}
			arr := x.allocRef(st, "arr")
			ls := flatten(at.Elem())
			cs := cur.(*Struct)
			for i, l := range ls {
				key := "[]" + typeKey(at.Elem()) + l.Suffix
				h := x.heapGet(st, key, smt.Array(RefS, smt.Array(I64, l.Sort)))
				x.heapSet(st, key, B.Store(h, arr, cs.Fields[i].(*smt.Term)))
			}
			delete(st.cells, p.Cell)
			x.escaped[p.Cell] = true
			return &Struct{[]Value{arr, lo, B.BVBin("bvsub", hi, lo), B.BVBin("bvsub", mx, lo)}}
		}
		if p.Ref != nil && p.SubIdx == nil {
			// slicing an array embedded in a heap object: the backing store is that field;
			// model it as a distinct array identity derived from the object
			unsupported("slicing an array field of a heap object")
		}
		unsupported("slicing through %s", p)
	}
	unsupported("Slice on %s", ins.X.Type())
	return nil
}

func (f *Frame) sliceCheck(st *State, ins ssa.Instruction, cond *smt.Term) {
	if f.panicHook != nil {
		ps := st.clone()
		ps.PC = f.x.B.And(st.PC, f.x.B.Not(cond))
		if !ps.PC.IsFalse() {
			f.panicHook(ps, "slice bounds out of range", ins)
		}
	}
	f.boundsCheck(st, ins, "slice-bounds", cond)
}

func (f *Frame) makeSlice(st *State, ins *ssa.MakeSlice) Value {
	x := f.x
	B := x.B
	ln := x.toInt64(f.val(ins.Len), ins.Len.Type())
	cp := x.toInt64(f.val(ins.Cap), ins.Cap.Type())
	cond := B.And(B.BVCmp("bvsle", B.BVC(0, 64), ln), B.BVCmp("bvsle", ln, cp), B.BVCmp("bvsle", cp, B.BVC(1<<40, 64)))
	f.boundsCheck(st, ins, "make-len", cond)
	et := ins.Type().Underlying().(*types.Slice).Elem()
	return x.newSlice(st, et, ln, cp)
}

// newSlice allocates a zeroed backing array.
func (x *Exec) newSlice(st *State, et types.Type, ln, cp *smt.Term) Value {
	B := x.B
	arr := x.allocRef(st, "arr")
	for _, l := range flatten(et) {
		key := "[]" + typeKey(et) + l.Suffix
		as := smt.Array(RefS, smt.Array(I64, l.Sort))
		h := x.heapGet(st, key, as)
		x.heapSet(st, key, B.Store(h, arr, B.ConstArray(smt.Array(I64, l.Sort), x.zeroOf(l.Sort))))
	}
	return &Struct{[]Value{arr, B.BVC(0, 64), ln, cp}}
}

// ---------- interfaces

// box turns a value into an interface payload (an Int): scalars through per-sort injections.
func (x *Exec) box(v Value, t types.Type) Value {
	B := x.B
	switch vv := v.(type) {
	case *Closure:
		return vv.ID
	case *FuncVal:
		return vv.ID
	case *smt.Term:
		if vv.S == RefS {
			return vv
		}
		name := "box_" + sortTag(vv.S)
		r := B.UF(name, RefS, vv)
		// unbox(box(x)) = x
		x.assumeGlobal(B.Eq(B.UF("unbox_"+sortTag(vv.S), vv.S, r), vv))
		return r
	case *Struct:
		ls := x.toLeaves(v, t)
		name := "boxs_" + opaqueSortName(t)
		r := B.UF(name, RefS, ls...)
		for i, l := range ls {
			x.assumeGlobal(B.Eq(B.UF(fmt.Sprintf("unboxs_%s_%d", opaqueSortName(t), i), l.S, r), l))
		}
		return r
	}
	unsupported("boxing %T into an interface", v)
	return nil
}

func sortTag(s *smt.Sort) string {
	switch s.K {
	case smt.KBool:
		return "bool"
	case smt.KBV:
		return fmt.Sprintf("bv%d", s.W)
	case smt.KFP:
		return fmt.Sprintf("fp%d", s.M)
	case smt.KInt:
		return "ref"
	case smt.KUn:
		return s.Name
	}
	return "x"
}

func (x *Exec) unbox(payload Value, t types.Type) Value {
	B := x.B
	p, ok := payload.(*smt.Term)
	if !ok {
		return payload // Go-level closure kept as is
	}
	if fnv, ok := x.idFn[p]; ok {
		return fnv
	}
	ls := flatten(t)
	_, isStruct := t.Underlying().(*types.Struct)
	if isStruct && isOpaqueStruct(t) {
		isStruct = false
	}
	if len(ls) == 1 && !isStruct {
		if ls[0].Sort == RefS {
			return p
		}
		if p.Op == "uf" && p.Name == "box_"+sortTag(ls[0].Sort) {
			return p.Args[0]
		}
		return B.UF("unbox_"+sortTag(ls[0].Sort), ls[0].Sort, p)
	}
	ts := make([]*smt.Term, len(ls))
	rebox := false
	for i, l := range ls {
		if p.Op == "uf" && p.Name == "boxs_"+opaqueSortName(t) {
			ts[i] = p.Args[i]
		} else {
			ts[i] = B.UF(fmt.Sprintf("unboxs_%s_%d", opaqueSortName(t), i), l.Sort, p)
			rebox = true
		}
	}
	if rebox {
		// boxing the parts again gives the same data word (the value is immutable)
		x.assumeGlobal(B.Eq(B.UF("boxs_"+opaqueSortName(t), RefS, ts...), p))
	}
	return x.fromLeaves(t, &ts)
}

func (x *Exec) ifaceEq(a, b Value) *smt.Term {
	B := x.B
	as, bs := a.(*Struct), b.(*Struct)
	// comparison with the nil interface: only the type word matters
	for _, p := range [][2]*Struct{{as, bs}, {bs, as}} {
		if t, ok := p[0].Fields[0].(*smt.Term); ok && t.Op == "int" && t.Val == 0 {
			return B.Eq(p[1].Fields[0].(*smt.Term), B.IntC(0))
		}
	}
	// (two nil interfaces are equal whatever their data words hold)
	ta, tb := as.Fields[0].(*smt.Term), bs.Fields[0].(*smt.Term)
	return B.And(B.Eq(ta, tb), B.Or(B.Eq(ta, B.IntC(0)), B.Eq(x.scalar(as.Fields[1], nil), x.scalar(bs.Fields[1], nil))))
}

func (f *Frame) typeAssert(st *State, ins *ssa.TypeAssert) Value {
	x := f.x
	B := x.B
	iv := f.val(ins.X).(*Struct)
	typ := iv.Fields[0].(*smt.Term)
	var ok *smt.Term
	var val Value
	if _, isIface := ins.AssertedType.Underlying().(*types.Interface); isIface {
		// interface-to-interface: succeeds iff dynamic type implements it; decided only for known types
		if typ.Op == "int" {
			dt := x.typeOf[int64(typ.Val)]
			if dt != nil {
				ok = B.BoolC(types.Implements(dt, ins.AssertedType.Underlying().(*types.Interface)))
			}
		}
		if ok == nil {
			ok = x.implementsTerm(typ, ins.AssertedType)
		}
		val = iv
	} else {
		ok = B.Eq(typ, x.typeID(ins.AssertedType))
		val = x.unbox(iv.Fields[1], ins.AssertedType)
	}
	if ins.CommaOk {
		zero := x.zeroValue(ins.AssertedType)
		var rv Value
		if ok.IsTrue() {
			rv = val
		} else if ok.IsFalse() {
			rv = zero
		} else {
			rv = x.iteLoose(ok, val, zero)
		}
		return &Struct{[]Value{rv, ok}}
	}
	if f.panicHook != nil {
		ps := st.clone()
		ps.PC = B.And(st.PC, B.Not(ok))
		if !ps.PC.IsFalse() {
			f.panicHook(ps, "type assertion", ins)
		}
	}
	f.boundsCheck(st, ins, "type-assert", ok)
	return val
}

// iteLoose merges values where one side may be a Go-level closure and the other a zero term.
func (x *Exec) iteLoose(c *smt.Term, a, b Value) (res Value) {
	defer func() {
		if r := recover(); r != nil {
			if _, ok := r.(Unsupported); !ok {
				panic(r)
			}
			x.note("comma-ok type assertion: value kept symbolic-unmerged on the failing branch")
			res = a
		}
	}()
	return x.ite(c, a, b)
}

// implementsTerm: "the dynamic type typ implements the interface type J" as a term: decided for a
// constant type, distributed over a case split, otherwise an uninterpreted predicate that is given
// its value on every concrete type the run knows (now and later, see typeID).
func (x *Exec) implementsTerm(typ *smt.Term, J types.Type) *smt.Term {
	B := x.B
	iface := J.Underlying().(*types.Interface)
	if typ.Op == "int" {
		if typ.Val == 0 {
			return B.False()
		}
		if dt := x.typeOf[int64(typ.Val)]; dt != nil {
			return B.BoolC(types.Implements(dt, iface))
		}
	}
	if typ.Op == "ite" && len(typ.Args) == 3 {
		return B.Ite(typ.Args[0], x.implementsTerm(typ.Args[1], J), x.implementsTerm(typ.Args[2], J))
	}
	name := "implements_" + opaqueSortName(J)
	if x.implIfaces == nil {
		x.implIfaces = map[string]types.Type{}
	}
	if _, seen := x.implIfaces[name]; !seen {
		x.implIfaces[name] = J
		x.assumeGlobal(B.Not(B.UF(name, smt.Bool, B.IntC(0))))
		for id, dt := range x.typeOf {
			x.assumeGlobal(B.Eq(B.UF(name, smt.Bool, B.IntC(id)), B.BoolC(types.Implements(dt, iface))))
		}
	}
	return B.UF(name, smt.Bool, typ)
}

// assumeIfaceTyped: a value of static interface type t (of a package modelled field by field)
// read from memory or received as a parameter is nil or has a dynamic type that implements t.
func (x *Exec) assumeIfaceTyped(v Value, t types.Type) {
	n, ok := t.(*types.Named)
	if !ok || n.Obj().Pkg() == nil || !TransparentPkgs[n.Obj().Pkg().Path()] {
		return
	}
	iface, ok := n.Underlying().(*types.Interface)
	if !ok || iface.NumMethods() == 0 {
		return
	}
	s, ok := v.(*Struct)
	if !ok || len(s.Fields) != 2 {
		return
	}
	typ, ok := s.Fields[0].(*smt.Term)
	if !ok {
		return
	}
	x.assumeGlobal(x.B.Or(x.B.Eq(typ, x.B.IntC(0)), x.implementsTerm(typ, t)))
}
