package sym

import (
	"go/types"

	"gowp/smt"
	"gowp/spec"
)

// valueconst(v, va): the content of the (compile-time) reflect value v read with the accessor of
// the kind of va.Type and converted to that kind: K(v.Int()), K(v.Uint()), K(v.Float()), ...
// Both arguments are evaluated in the state at closure creation.
func ghostValueConst(f *Frame, st, old *State, idx []spec.Expr, args []spec.Expr) TV {
	x := f.x
	B := x.B
	fe := x.needFam("valueconst")
	if len(args) != 2 {
		specErr("valueconst(value, typed-thing)")
	}
	v := fe.atCreation(args[0])
	va := fe.atCreation(args[1])
	k, ok := fe.kindOf(va, args[1])
	if !ok {
		specErr("the kind of %s is not determined on this path", args[1])
	}
	gt := KindType(k)
	if gt == nil {
		specErr("valueconst() of kind %s", kindNames[k])
	}
	rv := rvOf(v.V)
	cs := fe.create
	get := func(cat string, s *smt.Sort, pure string) *smt.Term {
		if rv.Op == "uf" && rv.Name == "rv_of" {
			return B.UF(pure, s, rv.Args...)
		}
		return B.Select(x.rcell(cs, cat, s), rv)
	}
	bt := gt.(*types.Basic)
	switch kindCategory(k) {
	case "bool":
		return TV{get("bool", smt.Bool, "iface_bool"), gt}
	case "int":
		return TV{B.Extract(basicSort(bt).W-1, 0, get("int", I64, "iface_int")), gt}
	case "uint":
		return TV{B.Extract(basicSort(bt).W-1, 0, get("uint", I64, "iface_uint")), gt}
	case "float":
		return TV{B.FPConv(get("float", smt.FP64, "iface_float"), basicSort(bt)), gt}
	case "complex":
		s := smt.FP64
		if k == kComplex64 {
			s = smt.FP32
		}
		return TV{&Struct{[]Value{B.FPConv(get("cre", smt.FP64, "iface_cre"), s), B.FPConv(get("cim", smt.FP64, "iface_cim"), s)}}, gt}
	case "str":
		return TV{get("str", StrS, "iface_str"), gt}
	}
	specErr("valueconst() of kind %s", kindNames[k])
	return TV{}
}
