package sym

import (
	"strings"
	"sync"
	"time"

	"gowp/smt"
)

// Outcome of one obligation.
type Outcome struct {
	Ob      *Obligation
	Status  string // discharged | failed (counter-model) | undischarged (unknown/timeout/error)
	By      string // normaliser | z3-new | z3 | cvc5
	Secs    float64
	Results []smt.Result
	Model   map[string]string
	Script  string
}

// Script renders the satisfiability query whose unsatisfiability proves the obligation.
func (x *Exec) Script(o *Obligation, withModel bool) string {
	return x.script(o, withModel, false)
}

// familyKind: closure-family obligations carry the whole creation path of the compile function in
// their path condition. They are first tried with only the hypotheses connected to the goal
// (dropping hypotheses is sound; a bit-vector goal is then not mixed with floating-point facts),
// and with everything if that does not prove them.
func familyKind(o *Obligation) bool {
	return o.Kind == "closure" || o.Kind == "alias" || o.Kind == "delegated" || o.Kind == "delegated-requires" || o.Kind == "stmt-return"
}

func (x *Exec) script(o *Obligation, withModel, focused bool) string {
	var asserts []*smt.Term
	if focused {
		asserts = goalDirected(o)
	} else {
		asserts = relevantHyps(o)
		asserts = append(asserts, o.PC)
	}
	if o.Expect != "sat" {
		asserts = append(asserts, x.B.Not(o.Goal))
	}
	var gv []*smt.Term
	if withModel {
		gv = smt.LeafVars(asserts)
		if len(gv) > 200 {
			gv = gv[:200]
		}
	}
	return x.B.Script(asserts, gv)
}

// Prepared is an obligation with its query text, ready to be solved concurrently.
type Prepared struct {
	Ob      *Obligation
	Focused string // goal-directed query tried first (closure families); "" if none
	Script  string
	Quick   string // "" or a status decided without a solver
}

func (x *Exec) Prepare(o *Obligation) *Prepared {
	p := &Prepared{Ob: o}
	if o.Expect == "sat" {
		if o.PC.IsFalse() {
			p.Quick = "failed"
			return p
		}
		p.Script = x.Script(o, false)
		return p
	}
	if o.Goal.IsTrue() || o.PC.IsFalse() {
		p.Quick = "discharged"
		return p
	}
	// goal literally among the path-condition conjuncts or hypotheses
	for _, c := range conjuncts(o.PC) {
		if c == o.Goal {
			p.Quick = "discharged"
			return p
		}
	}
	for _, h := range o.Hyps {
		if h == o.Goal {
			p.Quick = "discharged"
			return p
		}
	}
	p.Script = x.Script(o, true)
	if familyKind(o) {
		p.Focused = x.script(o, false, true)
	}
	return p
}

// Solve decides a prepared obligation.
func Solve(p *Prepared, timeout time.Duration, thorough bool) *Outcome {
	out := &Outcome{Ob: p.Ob, Script: p.Script}
	if p.Quick != "" {
		out.Status = p.Quick
		out.By = "normaliser"
		return out
	}
	t0 := time.Now()
	var best smt.Result
	var all []smt.Result
	if p.Focused != "" && p.Ob.Expect != "sat" {
		fb, fall := smt.Race(p.Focused, timeout, smt.AllSolvers)
		if fb.Status == "unsat" {
			out.Secs = time.Since(t0).Seconds()
			out.Results = fall
			out.By = fb.Solver + " (focused)"
			out.Status = "discharged"
			return out
		}
	}
	if thorough {
		all = smt.RunAll(p.Script, timeout, smt.AllSolvers)
		best.Status = "unknown"
		for _, r := range all {
			if r.Status == "sat" || r.Status == "unsat" {
				if best.Status == "sat" || best.Status == "unsat" {
					if best.Status != r.Status {
						out.Status = "engine-fault"
						out.By = "solver disagreement: " + best.Solver + "=" + best.Status + " " + r.Solver + "=" + r.Status
						out.Results = all
						return out
					}
					continue
				}
				best = r
			}
		}
		if best.Solver == "" && len(all) > 0 {
			best = all[0]
		}
	} else {
		best, all = smt.Race(p.Script, timeout, smt.AllSolvers)
	}
	out.Secs = time.Since(t0).Seconds()
	out.Results = all
	out.By = best.Solver
	if p.Ob.Expect == "sat" {
		switch best.Status {
		case "unsat":
			out.Status = "failed" // vacuous precondition
		default:
			out.Status = "discharged"
		}
		return out
	}
	switch best.Status {
	case "unsat":
		out.Status = "discharged"
	case "sat":
		out.Status = "failed"
		out.Model = best.Model
	default:
		out.Status = "undischarged"
		var ss []string
		for _, r := range all {
			ss = append(ss, r.Solver+"="+r.Status)
		}
		out.By = strings.Join(ss, ",")
	}
	return out
}

// SolveAll runs the obligations on a worker pool.
func SolveAll(ps []*Prepared, timeout time.Duration, thorough bool, workers int) []*Outcome {
	outs := make([]*Outcome, len(ps))
	var wg sync.WaitGroup
	ch := make(chan int)
	for w := 0; w < workers; w++ {
		wg.Add(1)
		go func() {
			defer wg.Done()
			for i := range ch {
				outs[i] = Solve(ps[i], timeout, thorough)
			}
		}()
	}
	for i := range ps {
		ch <- i
	}
	close(ch)
	wg.Wait()
	return outs
}

// entailed asks the solvers whether pc (with the global assumptions) entails goal. Used while
// generating obligations to decide side conditions of contract clauses ("L if cond"); "no" and
// "don't know" are the same answer.
func (x *Exec) entailed(pc, goal *smt.Term) bool {
	if goal.IsTrue() || pc.IsFalse() {
		return true
	}
	o := &Obligation{Name: "side-condition", Hyps: append([]*smt.Term{}, x.assumes...), PC: pc, Goal: goal, Expect: "unsat"}
	best, _ := smt.Race(x.Script(o, false), 2*time.Second, smt.AllSolvers)
	return best.Status == "unsat"
}
