package sym

import (
	"fmt"
	"go/types"
	"sort"
	"strings"

	"golang.org/x/tools/go/ssa"

	"gowp/spec"
)

// VerifyWriters checks a frame declaration of a contract file, "writers T.Field: f, g, ...":
// no other function of the package (function literals included) contains an instruction that can
// write field Field of a T - a store through the field's address, or the address escaping (passed
// to a call, stored, captured). This is a syntactic scan of the SSA of the whole package, not a
// solver query; it carries the "nobody else touches it" half of an every-exit restoration argument.
func (x *Exec) VerifyWriters(pkg *ssa.Package, sp *spec.FuncSpec) (rep *FuncReport) {
	name := strings.TrimPrefix(pkg.Pkg.Path(), modulePath+"/") + "." + sp.Name
	rep = &FuncReport{Func: name}
	start := len(x.Obls)
	defer func() { rep.Obligations = x.Obls[start:] }()
	x.prefix = name
	x.sig = ""
	tf := strings.SplitN(strings.TrimPrefix(sp.Name, "writers:"), ".", 2)
	if len(tf) != 2 {
		rep.Error = "writers declaration must name Type.Field"
		return
	}
	allowed := map[string]bool{}
	for _, w := range strings.Split(sp.Attrs["by"], ";") {
		allowed[w] = true
	}
	st := x.newState()
	writers := map[string]string{}
	var visit func(fn *ssa.Function)
	visit = func(fn *ssa.Function) {
		for _, b := range fn.Blocks {
			for _, ins := range b.Instrs {
				fa, ok := ins.(*ssa.FieldAddr)
				if !ok {
					continue
				}
				pt, ok := fa.X.Type().Underlying().(*types.Pointer)
				if !ok {
					continue
				}
				nt, ok := pt.Elem().(*types.Named)
				if !ok || nt.Obj().Name() != tf[0] || nt.Obj().Pkg() != pkg.Pkg {
					continue
				}
				su := nt.Underlying().(*types.Struct)
				if su.Field(fa.Field).Name() != tf[1] {
					continue
				}
				if why := mayWriteThrough(fa); why != "" {
					writers[FuncName(fn)] = why + " at " + x.Prog.Fset.Position(fa.Pos()).String()
				}
			}
		}
		for _, a := range fn.AnonFuncs {
			visit(a)
		}
	}
	for _, m := range pkg.Members {
		switch m := m.(type) {
		case *ssa.Function:
			visit(m)
		case *ssa.Type:
			for _, t := range []types.Type{m.Type(), types.NewPointer(m.Type())} {
				ms := x.Prog.MethodSets.MethodSet(t)
				for i := 0; i < ms.Len(); i++ {
					if fn := x.Prog.MethodValue(ms.At(i)); fn != nil && fn.Pkg == pkg && fn.Synthetic == "" {
						visit(fn)
					}
				}
			}
		}
	}
	var names []string
	for n := range writers {
		names = append(names, n)
	}
	sort.Strings(names)
	if len(names) == 0 {
		x.oblige("writers-found", "at least one function writes "+tf[0]+"."+tf[1], shortFile(sp.File), st, x.B.False())
		return
	}
	for _, n := range names {
		g := x.B.True()
		if !allowed[n] {
			g = x.B.False()
		}
		x.oblige("writers", fmt.Sprintf("%s may write %s.%s only if the contract file lists it (%s)", n, tf[0], tf[1], writers[n]), shortFile(sp.File), st, g)
	}
	return rep
}

// mayWriteThrough: the address computed by v is stored through, or escapes.
func mayWriteThrough(v ssa.Value) string {
	refs := v.Referrers()
	if refs == nil {
		return ""
	}
	for _, r := range *refs {
		switch r := r.(type) {
		case *ssa.UnOp:
			// load
		case *ssa.DebugRef:
		case *ssa.Store:
			if r.Addr == v {
				return "store"
			}
			return "address stored"
		case *ssa.FieldAddr:
			if w := mayWriteThrough(r); w != "" {
				return w
			}
		case *ssa.IndexAddr:
			if w := mayWriteThrough(r); w != "" {
				return w
			}
		default:
			return fmt.Sprintf("address used by %T", r)
		}
	}
	return ""
}
