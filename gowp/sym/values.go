// Package sym is the symbolic executor of gowp: it runs go/ssa functions over smt terms,
// cutting loops at contract invariants and calls at callee contracts, and emits obligations.
package sym

import (
	"fmt"
	"go/types"
	"os"
	"runtime/debug"
	"strings"

	"golang.org/x/tools/go/ssa"

	"gowp/smt"
)

// Value is a symbolic Go value:
//
//	*smt.Term   scalar (bool, integer, float, string, reference, function id, opaque library value)
//	*Struct     struct / tuple / complex (re, im) / slice (arr, off, len, cap) / interface (typ, val)
//	*Closure    closure created by code under analysis (body known)
//	*FuncVal    statically known function
//	*Ptr        address that is not a plain object reference (cell, field, element, unsafe view)
type Value interface{}

type Struct struct {
	Fields []Value
}

type Closure struct {
	Fn    *ssa.Function
	Binds []Value // one per free variable (usually *Ptr to a cell)
	ID    *smt.Term
	At    *State // memory at creation (for immutable captured cells)
}

type FuncVal struct {
	Fn *ssa.Function
	ID *smt.Term
}

// Cell is a local variable whose address is taken (captured variables, address-taken locals).
type Cell struct {
	ID   int
	Name string
	Type types.Type
}

type step struct {
	field int       // >= 0: struct field index
	index *smt.Term // != nil: array index (BV64)
}

// Ptr is a Go-level address.
type Ptr struct {
	// exactly one root:
	Cell *Cell     // local cell
	Ref  *smt.Term // heap object (struct) reference, Int
	Arr  *smt.Term // slice backing array identity, Int
	Idx  *smt.Term // absolute element index for Arr roots (BV64) = Off + Rel
	Off  *smt.Term // slice offset and index relative to it, when the address came from s[i]:
	Rel  *smt.Term // loads then read elem(contents, Off, Rel), a shape quantified facts can match
	Glob *ssa.Global
	// static information
	Key  string     // heap key prefix for Ref/Arr roots
	Path []step     // navigation inside a cell
	Type types.Type // pointee type
	View types.Type // != nil: unsafe reinterpretation of the pointee as this type
	// a field inside an array-typed field of a heap object: extra index
	SubIdx *smt.Term
}

func (p *Ptr) String() string {
	switch {
	case p.Cell != nil:
		return fmt.Sprintf("&cell(%s)%v", p.Cell.Name, p.Path)
	case p.Ref != nil:
		return fmt.Sprintf("&%s@%s", p.Key, p.Ref)
	case p.Arr != nil:
		return fmt.Sprintf("&%s@%s[%s]", p.Key, p.Arr, p.Idx)
	case p.Glob != nil:
		return "&" + p.Glob.Name()
	}
	return "&?"
}

// Sorts of the machine model.
var (
	RefS = smt.Int       // object references, array identities, function ids, type ids, payload boxes
	StrS = smt.Un("Str") // Go strings (uninterpreted, see lib.go for the axioms)
	I64  = smt.BV(64)
)

// Unsupported is raised (as a panic) when code leaves the subset the generator models.
type Unsupported struct{ Msg string }

func (u Unsupported) Error() string { return "unsupported: " + u.Msg }

func unsupported(format string, a ...interface{}) {
	if os.Getenv("GOWP_DEBUG") != "" {
		panic(Unsupported{fmt.Sprintf(format, a...) + "\n" + string(debug.Stack())})
	}
	panic(Unsupported{fmt.Sprintf(format, a...)})
}

// leaf describes one scalar component of a flattened Go type.
type leaf struct {
	Suffix string
	Sort   *smt.Sort
	Type   types.Type // Go type of the component when it is itself a Go scalar (signedness), else nil
}

const modulePath = "github.com/cosmos72/gomacro"

func isModuleType(n *types.Named) bool {
	p := n.Obj().Pkg()
	return p != nil && strings.HasPrefix(p.Path(), modulePath)
}

func typeKey(t types.Type) string {
	return types.TypeString(t, func(p *types.Package) string {
		path := p.Path()
		path = strings.TrimPrefix(path, modulePath+"/")
		return path
	})
}

func opaqueSortName(t types.Type) string {
	s := typeKey(t)
	r := strings.NewReplacer(".", "_", "/", "_", "*", "P", "[", "L", "]", "R", " ", "", "{", "", "}", "", "(", "", ")", "", ",", "_", ";", "_")
	return "O_" + r.Replace(s)
}

// isOpaqueStruct: struct types owned by other modules are modelled as uninterpreted values
// with library specifications (reflect.Value, token.Pos-bearing structs, sync.Mutex, ...).
func isOpaqueStruct(t types.Type) bool {
	if n, ok := t.(*types.Named); ok {
		if _, isStruct := n.Underlying().(*types.Struct); isStruct && !isModuleType(n) {
			if p := n.Obj().Pkg(); p != nil && TransparentPkgs[p.Path()] {
				return false
			}
			return true
		}
	}
	return false
}

// TransparentPkgs: non-module packages whose struct types are modelled field by field during this
// run (set by the command from the "package transparent" directive of the package under verification).
var TransparentPkgs = map[string]bool{}

func basicSort(b *types.Basic) *smt.Sort {
	switch b.Kind() {
	case types.Bool, types.UntypedBool:
		return smt.Bool
	case types.Int8, types.Uint8:
		return smt.BV(8)
	case types.Int16, types.Uint16:
		return smt.BV(16)
	case types.Int32, types.Uint32, types.UntypedRune:
		return smt.BV(32)
	case types.Int, types.Int64, types.Uint, types.Uint64, types.Uintptr, types.UntypedInt:
		return smt.BV(64)
	case types.Float32:
		return smt.FP32
	case types.Float64, types.UntypedFloat:
		return smt.FP64
	case types.String, types.UntypedString:
		return StrS
	case types.UnsafePointer:
		return RefS
	case types.UntypedNil:
		return RefS
	}
	return nil
}

func isSigned(t types.Type) bool {
	if b, ok := t.Underlying().(*types.Basic); ok {
		return b.Info()&types.IsUnsigned == 0
	}
	return true
}

// flatten lists the scalar leaves of a Go type, in a fixed order.
func flatten(t types.Type) []leaf {
	var out []leaf
	var rec func(t types.Type, pre string, depth int)
	rec = func(t types.Type, pre string, depth int) {
		if depth > 6 {
			unsupported("type nesting too deep: %s", t)
		}
		if isOpaqueStruct(t) {
			out = append(out, leaf{pre, smt.Un(opaqueSortName(t)), nil})
			return
		}
		switch u := t.Underlying().(type) {
		case *types.Basic:
			switch u.Kind() {
			case types.Complex64:
				out = append(out, leaf{pre + "#re", smt.FP32, types.Typ[types.Float32]}, leaf{pre + "#im", smt.FP32, types.Typ[types.Float32]})
			case types.Complex128, types.UntypedComplex:
				out = append(out, leaf{pre + "#re", smt.FP64, types.Typ[types.Float64]}, leaf{pre + "#im", smt.FP64, types.Typ[types.Float64]})
			default:
				s := basicSort(u)
				if s == nil {
					unsupported("basic type %s", u)
				}
				out = append(out, leaf{pre, s, t})
			}
		case *types.Pointer, *types.Map, *types.Chan, *types.Signature:
			out = append(out, leaf{pre, RefS, nil})
		case *types.Slice:
			out = append(out, leaf{pre + "#arr", RefS, nil}, leaf{pre + "#off", I64, nil}, leaf{pre + "#len", I64, types.Typ[types.Int]}, leaf{pre + "#cap", I64, types.Typ[types.Int]})
		case *types.Interface:
			out = append(out, leaf{pre + "#typ", RefS, nil}, leaf{pre + "#val", RefS, nil})
		case *types.Struct:
			for i := 0; i < u.NumFields(); i++ {
				rec(u.Field(i).Type(), pre+"."+u.Field(i).Name(), depth+1)
			}
		case *types.Tuple:
			for i := 0; i < u.Len(); i++ {
				rec(u.At(i).Type(), fmt.Sprintf("%s.%d", pre, i), depth+1)
			}
		case *types.Array:
			// value arrays: one SMT array per leaf of the element type
			for _, l := range flatten(u.Elem()) {
				out = append(out, leaf{pre + "[]" + l.Suffix, smt.Array(I64, l.Sort), nil})
			}
		default:
			unsupported("type %s", t)
		}
	}
	rec(t, "", 0)
	return out
}

// toLeaves decomposes a value of Go type t into its scalar leaves.
func (x *Exec) toLeaves(v Value, t types.Type) []*smt.Term {
	var out []*smt.Term
	var rec func(v Value, t types.Type)
	rec = func(v Value, t types.Type) {
		if isOpaqueStruct(t) {
			out = append(out, v.(*smt.Term))
			return
		}
		switch u := t.Underlying().(type) {
		case *types.Basic:
			if u.Info()&types.IsComplex != 0 {
				s := v.(*Struct)
				out = append(out, s.Fields[0].(*smt.Term), s.Fields[1].(*smt.Term))
				return
			}
			out = append(out, x.scalar(v, t))
		case *types.Pointer, *types.Map, *types.Chan, *types.Signature:
			out = append(out, x.scalar(v, t))
		case *types.Slice:
			s := v.(*Struct)
			for i := 0; i < 4; i++ {
				out = append(out, s.Fields[i].(*smt.Term))
			}
		case *types.Interface:
			s := v.(*Struct)
			out = append(out, s.Fields[0].(*smt.Term), x.scalar(s.Fields[1], nil))
		case *types.Struct:
			s := v.(*Struct)
			for i := 0; i < u.NumFields(); i++ {
				rec(s.Fields[i], u.Field(i).Type())
			}
		case *types.Tuple:
			s := v.(*Struct)
			for i := 0; i < u.Len(); i++ {
				rec(s.Fields[i], u.At(i).Type())
			}
		case *types.Array:
			s := v.(*Struct)
			for _, f := range s.Fields {
				out = append(out, f.(*smt.Term))
			}
		default:
			unsupported("toLeaves %s", t)
		}
	}
	rec(v, t)
	return out
}

// scalar turns Go-level function values and pointers into terms where that is possible.
func (x *Exec) scalar(v Value, t types.Type) *smt.Term {
	switch v := v.(type) {
	case *smt.Term:
		return v
	case *Closure:
		return v.ID
	case *FuncVal:
		return v.ID
	case *Ptr:
		if v.Ref != nil && len(v.Path) == 0 && v.Key == "" {
			return v.Ref
		}
		if v.Ref != nil && len(v.Path) == 0 && v.SubIdx == nil && v.View == nil && v.Key != "" {
			// the address of a field of a heap object, handed to a function that is only specified:
			// an uninterpreted function of the object (one per field)
			return x.B.UF("fieldaddr_"+sanitize(v.Key), RefS, v.Ref)
		}
		unsupported("address %s used as a first-class value", v)
	case *Struct:
		unsupported("composite value where a scalar was expected (%d fields)", len(v.Fields))
	case nil:
		unsupported("nil symbolic value")
	}
	unsupported("scalar of %T", v)
	return nil
}

// fromLeaves rebuilds a value of type t from leaves (consumes from *ls).
func (x *Exec) fromLeaves(t types.Type, ls *[]*smt.Term) Value {
	take := func() *smt.Term {
		v := (*ls)[0]
		*ls = (*ls)[1:]
		return v
	}
	if isOpaqueStruct(t) {
		return take()
	}
	switch u := t.Underlying().(type) {
	case *types.Basic:
		if u.Info()&types.IsComplex != 0 {
			return &Struct{[]Value{take(), take()}}
		}
		return take()
	case *types.Pointer, *types.Map, *types.Chan, *types.Signature:
		return take()
	case *types.Slice:
		return &Struct{[]Value{take(), take(), take(), take()}}
	case *types.Interface:
		return &Struct{[]Value{take(), take()}}
	case *types.Struct:
		s := &Struct{}
		for i := 0; i < u.NumFields(); i++ {
			s.Fields = append(s.Fields, x.fromLeaves(u.Field(i).Type(), ls))
		}
		return s
	case *types.Tuple:
		s := &Struct{}
		for i := 0; i < u.Len(); i++ {
			s.Fields = append(s.Fields, x.fromLeaves(u.At(i).Type(), ls))
		}
		return s
	case *types.Array:
		s := &Struct{}
		for range flatten(u.Elem()) {
			s.Fields = append(s.Fields, take())
		}
		return s
	}
	unsupported("fromLeaves %s", t)
	return nil
}

// freshValue creates an unconstrained value of type t.
func (x *Exec) freshValue(prefix string, t types.Type) Value {
	ls := flatten(t)
	ts := make([]*smt.Term, len(ls))
	for i, l := range ls {
		ts[i] = x.B.Fresh(prefix+l.Suffix, l.Sort)
	}
	rest := ts
	return x.fromLeaves(t, &rest)
}

// namedValue creates a value of type t whose leaves are variables called name+suffix.
func (x *Exec) namedValue(name string, t types.Type) Value {
	ls := flatten(t)
	ts := make([]*smt.Term, len(ls))
	for i, l := range ls {
		ts[i] = x.B.Var(name+l.Suffix, l.Sort)
	}
	rest := ts
	return x.fromLeaves(t, &rest)
}

// zeroValue is Go's zero value of t.
func (x *Exec) zeroValue(t types.Type) Value {
	ls := flatten(t)
	ts := make([]*smt.Term, len(ls))
	for i, l := range ls {
		ts[i] = x.zeroOf(l.Sort)
	}
	rest := ts
	return x.fromLeaves(t, &rest)
}

func (x *Exec) zeroOf(s *smt.Sort) *smt.Term {
	b := x.B
	switch s.K {
	case smt.KBool:
		return b.False()
	case smt.KBV:
		return b.BVC(0, s.W)
	case smt.KInt:
		return b.IntC(0)
	case smt.KFP:
		return b.FPC(0, s)
	case smt.KArray:
		return b.ConstArray(s, x.zeroOf(s.Elem))
	case smt.KUn:
		if s == StrS {
			return x.strConst("")
		}
		return b.Var("zero_"+s.Name, s)
	}
	panic("zeroOf")
}

// ite merges two values of the same Go type.
func (x *Exec) ite(c *smt.Term, a, b Value) Value {
	if c.IsTrue() {
		return a
	}
	if c.IsFalse() {
		return b
	}
	if a == b {
		return a
	}
	switch av := a.(type) {
	case *smt.Term:
		switch bv := b.(type) {
		case *smt.Term:
			return x.B.Ite(c, av, bv)
		case *Closure:
			return x.B.Ite(c, av, bv.ID)
		case *FuncVal:
			return x.B.Ite(c, av, bv.ID)
		}
	case *Struct:
		if bs, ok := b.(*Struct); ok && len(bs.Fields) == len(av.Fields) {
			out := &Struct{Fields: make([]Value, len(av.Fields))}
			for i := range av.Fields {
				out.Fields[i] = x.ite(c, av.Fields[i], bs.Fields[i])
			}
			return out
		}
	case *Closure:
		if bc, ok := b.(*Closure); ok && bc.Fn == av.Fn && len(bc.Binds) == len(av.Binds) {
			same := true
			for i := range av.Binds {
				if av.Binds[i] != bc.Binds[i] {
					same = false
				}
			}
			if same {
				return a
			}
		}
		return x.B.Ite(c, av.ID, x.scalar(b, nil))
	case *FuncVal:
		if bf, ok := b.(*FuncVal); ok && bf.Fn == av.Fn {
			return a
		}
		return x.B.Ite(c, av.ID, x.scalar(b, nil))
	case *Ptr:
		if bp, ok := b.(*Ptr); ok {
			if m := x.mergePtr(c, av, bp); m != nil {
				return m
			}
		}
		if bt, ok := b.(*smt.Term); ok && bt.Op == "int" && bt.Val == 0 {
			if np := nilLike(x, av); np != nil {
				if m := x.mergePtr(c, av, np); m != nil {
					return m
				}
			}
		}
	}
	if at, ok := a.(*smt.Term); ok && at.Op == "int" && at.Val == 0 {
		if bp, ok := b.(*Ptr); ok {
			if np := nilLike(x, bp); np != nil {
				if m := x.mergePtr(c, np, bp); m != nil {
					return m
				}
			}
		}
	}
	unsupported("cannot merge values %T and %T", a, b)
	return nil
}

// nilLike: the nil pointer in the shape of p (an interior address is nil exactly when its root is),
// so that a pointer variable that is nil on one path and an element address on another can be merged.
func nilLike(x *Exec, p *Ptr) *Ptr {
	if len(p.Path) != 0 || p.SubIdx != nil {
		return nil
	}
	switch {
	case p.Arr != nil:
		return &Ptr{Arr: x.B.IntC(0), Idx: x.B.BVC(0, 64), Key: p.Key, Type: p.Type, View: p.View}
	case p.Ref != nil:
		return &Ptr{Ref: x.B.IntC(0), Key: p.Key, Type: p.Type, View: p.View}
	}
	return nil
}

func (x *Exec) mergePtr(c *smt.Term, a, b *Ptr) *Ptr {
	if a.Key != b.Key || len(a.Path) != 0 || len(b.Path) != 0 || a.View != b.View {
		if a.Cell != nil && a.Cell == b.Cell && fmt.Sprint(a.Path) == fmt.Sprint(b.Path) {
			return a
		}
		return nil
	}
	out := *a
	switch {
	case a.Ref != nil && b.Ref != nil:
		out.Ref = x.B.Ite(c, a.Ref, b.Ref)
	case a.Arr != nil && b.Arr != nil:
		out.Arr = x.B.Ite(c, a.Arr, b.Arr)
		out.Idx = x.B.Ite(c, a.Idx, b.Idx)
		if a.Off != b.Off || a.Rel != b.Rel {
			out.Off, out.Rel = nil, nil
		}
	case a.Cell != nil && a.Cell == b.Cell:
		return a
	case a.Glob != nil && a.Glob == b.Glob:
		return a
	default:
		return nil
	}
	if (a.SubIdx == nil) != (b.SubIdx == nil) {
		return nil
	}
	if a.SubIdx != nil {
		out.SubIdx = x.B.Ite(c, a.SubIdx, b.SubIdx)
	}
	return &out
}

// eqValue: structural equality of two values (Go == on comparable types, all NaNs identified).
func (x *Exec) eqValue(a, b Value) *smt.Term {
	switch av := a.(type) {
	case *smt.Term:
		if bp, isP := b.(*Ptr); isP && av.Op == "int" && av.Val == 0 {
			return x.eqValue(bp, av)
		}
		return x.B.Eq(av, x.scalar(b, nil))
	case *Struct:
		bs, ok := b.(*Struct)
		if !ok || len(bs.Fields) != len(av.Fields) {
			unsupported("equality of differently shaped values")
		}
		var cs []*smt.Term
		for i := range av.Fields {
			cs = append(cs, x.eqValue(av.Fields[i], bs.Fields[i]))
		}
		return x.B.And(cs...)
	case *Closure, *FuncVal:
		return x.B.Eq(x.scalar(a, nil), x.scalar(b, nil))
	case *Ptr:
		bp, ok := b.(*Ptr)
		if !ok {
			if bt, isT := b.(*smt.Term); isT && bt.Op == "int" && bt.Val == 0 {
				// an interior address is nil exactly when its root object is
				switch {
				case av.Ref != nil:
					return x.B.Eq(av.Ref, bt)
				case av.Arr != nil:
					return x.B.Eq(av.Arr, bt)
				}
				return x.B.False()
			}
			unsupported("equality of address and %T", b)
		}
		return x.eqPtr(av, bp)
	}
	unsupported("equality of %T", a)
	return nil
}

func (x *Exec) eqPtr(a, b *Ptr) *smt.Term {
	B := x.B
	if a.Key != b.Key || (a.View == nil) != (b.View == nil) || (a.View != nil && !types.Identical(a.View, b.View)) {
		return B.False()
	}
	switch {
	case a.Cell != nil || b.Cell != nil:
		return B.BoolC(a.Cell == b.Cell && fmt.Sprint(a.Path) == fmt.Sprint(b.Path))
	case a.Ref != nil && b.Ref != nil:
		c := B.Eq(a.Ref, b.Ref)
		if a.SubIdx != nil && b.SubIdx != nil {
			c = B.And(c, B.Eq(a.SubIdx, b.SubIdx))
		}
		return c
	case a.Arr != nil && b.Arr != nil:
		return B.And(B.Eq(a.Arr, b.Arr), B.Eq(a.Idx, b.Idx))
	case a.Glob != nil && b.Glob != nil:
		return B.BoolC(a.Glob == b.Glob)
	}
	return B.False()
}
