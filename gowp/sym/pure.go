package sym

import (
	"fmt"
	"strings"

	"golang.org/x/tools/go/ssa"

	"gowp/smt"
)

// pureResults: results of a function whose contract says "pure", as uninterpreted functions of the
// arguments and of the current heap token (the function may read the heap).
func (x *Exec) pureResults(st *State, fn *ssa.Function, args []Value) []Value {
	B := x.B
	var flat []*smt.Term
	var tags []string
	for i, a := range args {
		for _, l := range x.toLeaves(a, fn.Params[i].Type()) {
			flat = append(flat, l)
			tags = append(tags, sortTag(l.S))
		}
	}
	// "pure" in a contract means: a mathematical function of the argument values (it may inspect
	// immutable data reachable from them, never mutable interpreter state)
	res := fn.Signature.Results()
	var rs []Value
	for i := 0; i < res.Len(); i++ {
		ls := flatten(res.At(i).Type())
		ts := make([]*smt.Term, len(ls))
		for j, l := range ls {
			ts[j] = B.UF(fmt.Sprintf("pure_%s_%d_%d_%s", sanitize(fn.String()), i, j, strings.Join(tags, "_")), l.Sort, flat...)
		}
		rs = append(rs, x.fromLeaves(res.At(i).Type(), &ts))
	}
	return rs
}
