package sym

import (
	"fmt"
	"go/types"
	"os"
	"strings"

	"gowp/smt"
	"gowp/spec"
)

// Ghost vocabulary of closure contracts (DESIGN.md section 4).

func (x *Exec) registerGhosts() {
	x.Ghosts["operand"] = ghostOperand
	mkVar := func(name, force string) GhostFn {
		return func(f *Frame, st, old *State, idx []spec.Expr, args []spec.Expr) TV {
			x := f.x
			fe := x.needFam(name)
			p := x.variablePlace(f, fe, args, st, fe.create, force)
			// the textual form of the whole ghost call identifies an already resolved place
			var as []string
			for _, a := range args {
				as = append(as, a.String())
			}
			key := name + "(" + strings.Join(as, ", ") + ")"
			if rs, ok := fe.resolved[key]; ok {
				return TV{rs.read(st), p.typ}
			}
			return TV{p.resolve(st).read(st), p.typ}
		}
	}
	x.Ghosts["variable"] = mkVar("variable", "")
	x.Ghosts["boxed"] = mkVar("boxed", "boxed")
	x.Ghosts["unboxed"] = mkVar("unboxed", "unboxed")
	x.Ghosts["valueconst"] = ghostValueConst
	x.Ghosts["call"] = ghostCall
	// callfn(f): the result of calling, on env, the function value f (static type func(*Env) K)
	x.Ghosts["callfn"] = func(f *Frame, st, old *State, idx []spec.Expr, args []spec.Expr) TV {
		x := f.x
		fe := x.needFam("callfn")
		if len(args) != 1 {
			specErr("callfn(f)")
		}
		key := "callfn:" + args[0].String()
		if tv, ok := fe.memo[key]; ok {
			return tv
		}
		fv := fe.atCreation(args[0])
		sig, ok := fv.T.Underlying().(*types.Signature)
		if !ok || sig.Results().Len() != 1 || sig.Params().Len() != 1 {
			specErr("callfn(%s): not a func(*Env) K value", args[0])
		}
		callee := x.simplifyUnder(st.PC, x.scalar(fv.V, nil))
		fe.sawCall = true
		r := x.opaqueCall(nil, st, nil, callee, []Value{fe.env}, sig)
		tv := TV{r, sig.Results().At(0).Type()}
		if fe.collect {
			fe.memo[key] = tv
		}
		return tv
	}
	x.Ghosts["funkind"] = func(f *Frame, st, old *State, idx []spec.Expr, args []spec.Expr) TV {
		fe := f.x.needFam("funkind")
		if len(args) != 1 {
			specErr("funkind(f)")
		}
		k, _, ok := fe.funKind(fe.atCreation(args[0]))
		if !ok {
			specErr("the dynamic type of %s is not determined on this path", args[0])
		}
		return TV{f.x.B.BVC(k, 64), nil}
	}
	x.Ghosts["goeq"] = ghostGoEq
	x.Ghosts["goneq"] = func(f *Frame, st, old *State, idx []spec.Expr, args []spec.Expr) TV {
		r := ghostGoEq(f, st, old, idx, args)
		return TV{f.x.B.Not(r.V.(*smt.Term)), r.T}
	}
	x.Ghosts["constant"] = ghostConstant
	x.Ghosts["up"] = ghostUp
	x.Ghosts["frame"] = ghostFrame
	x.Ghosts["callfunc"] = ghostCallFunc
	x.Ghosts["frameup"] = ghostFrameUp
}

func (x *Exec) needFam(name string) *famEnv {
	if x.fam == nil {
		specErr("%s() is only meaningful inside a closure contract", name)
	}
	return x.fam
}

// atCreation evaluates an expression in the compile function's frame, in the state at closure creation.
func (fe *famEnv) atCreation(e spec.Expr) (tv TV) {
	par := fe.parent
	sc, si := par.cur, par.curIdx
	defer func() { par.cur, par.curIdx = sc, si }()
	// parameters of the compile function first; its local variables (as they are at the creation
	// point) when the expression names one
	retry := false
	func() {
		defer func() {
			if r := recover(); r != nil {
				if se, ok := r.(SpecError); ok && strings.Contains(se.Error(), "unknown name") && sc != nil {
					retry = true
					return
				}
				panic(r)
			}
		}()
		par.cur, par.curIdx = nil, 0
		tv = par.eval(e, fe.create, fe.create)
	}()
	if retry {
		par.cur, par.curIdx = sc, si
		tv = par.eval(e, fe.create, fe.create)
	}
	return tv
}

// exprKind: the pinned kind of e.Type for a compile-time *Expr / *Var / *Place value.
func (fe *famEnv) kindOf(v TV, what spec.Expr) (uint64, bool) {
	x := fe.x
	par := fe.parent
	typ := par.selectField(v, "Type", fe.create)
	kt := x.kindOfXType(par, typ, fe.create)
	c, ok := fe.pinned(kt)
	if ok {
		return c.Val, true
	}
	// the path may select on the dynamic type of e.Fun instead (type switch): func(*Env) K
	if pt, isPtr := v.T.Underlying().(*types.Pointer); isPtr {
		if su, isStruct := pt.Elem().Underlying().(*types.Struct); isStruct && findField(su, "Fun") != nil {
			fun := par.selectField(v, "Fun", fe.create)
			if fs, isIface := fun.V.(*Struct); isIface {
				if tc, ok := fe.pinned(fs.Fields[0].(*smt.Term)); ok {
					if ft := x.typeOf[int64(tc.Val)]; ft != nil {
						if sig, isSig := ft.Underlying().(*types.Signature); isSig && sig.Results().Len() == 1 {
							if b, isBasic := sig.Results().At(0).Type().Underlying().(*types.Basic); isBasic {
								for k := uint64(1); k <= kString; k++ {
									if kt := KindType(k); kt != nil && kt.(*types.Basic).Kind() == b.Kind() {
										x.note("expression well-formedness (assumed for operands): the dynamic type of e.Fun is func(*Env) K with K = kind(e.Type)")
										return k, true
									}
								}
							}
						}
					}
				}
			}
		}
	}
	return 0, false
}

// operand(e): the run-time value of a compiled operand expression e (*Expr):
// its constant, or the result of calling e.Fun(env).
func ghostOperand(f *Frame, st, old *State, idx []spec.Expr, args []spec.Expr) TV {
	x := f.x
	fe := x.needFam("operand")
	if len(args) != 1 {
		specErr("operand(e)")
	}
	key := "operand:" + args[0].String()
	if tv, ok := fe.memo[key]; ok {
		return tv
	}
	par := fe.parent
	e := fe.atCreation(args[0])
	k, ok := fe.kindOf(e, args[0])
	if !ok {
		specErr("the kind of %s is not determined on this path", args[0])
	}
	gt := KindType(k)
	if gt == nil {
		specErr("operand() of kind %s", kindNames[k])
	}
	isConst := par.callMethod(e, "Const", fe.create).V.(*smt.Term)
	if os.Getenv("GOWP_DEBUG") == "2" {
		v, known := fe.truth(isConst)
		fmt.Fprintf(os.Stderr, "operand(%s): const=%s known=%v val=%v\n  PC=%s\n", args[0], clipS(isConst.String(), 300), known, v, clipS(fe.create.PC.String(), 1500))
	}
	if v, known := fe.truth(isConst); known && v {
		val := par.selectField(e, "Value", fe.create)
		return TV{x.wfConst(val.V.(*Struct), k, gt), gt}
	}
	fun := par.selectField(e, "Fun", fe.create).V.(*Struct)
	callee := x.simplifyUnder(st.PC, x.scalar(fun.Fields[1], nil))
	envT := types.NewPointer(fe.envType())
	sig := types.NewSignatureType(nil, nil, nil, types.NewTuple(types.NewVar(0, nil, "env", envT)), types.NewTuple(types.NewVar(0, nil, "", gt)), false)
	// the dynamic type of e.Fun is func(*Env) K on this path (expression well-formedness, assumed
	// for operands; proved for results by the closure-type obligation)
	fe.sawCall = true
	r := x.opaqueCall(nil, st, nil, callee, []Value{fe.env}, sig)
	tv := TV{r, gt}
	if fe.collect {
		fe.memo[key] = tv
	}
	return tv
}

// constant(i, v): the constant stored in the interface value i, in the kind of v.Type.
func ghostConstant(f *Frame, st, old *State, idx []spec.Expr, args []spec.Expr) TV {
	x := f.x
	fe := x.needFam("constant")
	if len(args) != 2 {
		specErr("constant(value, typed-thing)")
	}
	i := fe.atCreation(args[0])
	v := fe.atCreation(args[1])
	k, ok := fe.kindOf(v, args[1])
	if !ok {
		specErr("the kind of %s is not determined on this path", args[1])
	}
	gt := KindType(k)
	if gt == nil {
		specErr("constant() of kind %s", kindNames[k])
	}
	return TV{x.wfConst(i.V.(*Struct), k, gt), gt}
}

// wfConst: the value of the constant held in the interface vs, in kind k, together with the
// well-formedness facts assumed about constants handed to compile functions: the dynamic type of
// the interface has kind k; Int()/Uint() of a narrow kind is the extension of a value of that
// kind; a floating-point constant is never negative zero (go/constant holds exact values).
func (x *Exec) wfConst(vs *Struct, k uint64, gt types.Type) Value {
	typT, payT := vs.Fields[0].(*smt.Term), x.scalar(vs.Fields[1], nil)
	x.note("expression well-formedness (assumed for operands): the Value of a constant operand has the kind of its Type")
	x.assumeGlobal(x.B.Eq(x.rkind(x.B.UF("rv_of", rvSort, typT, payT)), x.B.BVC(k, 64)))
	if bt, ok := gt.(*types.Basic); ok && (kindCategory(k) == "int" || kindCategory(k) == "uint") {
		w := basicSort(bt).W
		if w < 64 {
			if kindCategory(k) == "int" {
				v := x.B.UF("iface_int", I64, typT, payT)
				x.assumeGlobal(x.B.Eq(v, x.B.SignExt(64-w, x.B.Extract(w-1, 0, v))))
			} else {
				v := x.B.UF("iface_uint", I64, typT, payT)
				x.assumeGlobal(x.B.Eq(v, x.B.ZeroExt(64-w, x.B.Extract(w-1, 0, v))))
			}
		}
	}
	// an interface holding a value of a predeclared basic type has that type's kind
	for kk := uint64(kBool); kk <= kString; kk++ {
		if t := KindType(kk); t != nil {
			x.assumeGlobal(x.B.Implies(x.B.Eq(typT, x.typeID(t)), x.B.Eq(x.rkind(x.B.UF("rv_of", rvSort, typT, payT)), x.B.BVC(kk, 64))))
		}
	}
	cv := x.ifaceConst(vs, k)
	nz := func(t *smt.Term) {
		if t.S.K == smt.KFP {
			x.note("constant operands (assumed): a floating-point constant is never negative zero (go/constant holds exact values)")
			x.assumeGlobal(x.B.Not(x.B.And(x.B.FPPred("fp.isZero", t), x.B.FPPred("fp.isNegative", t))))
		}
	}
	switch c := cv.(type) {
	case *smt.Term:
		nz(c)
	case *Struct:
		for _, fl := range c.Fields {
			if t, ok := fl.(*smt.Term); ok {
				nz(t)
			}
		}
	}
	return cv
}

// up(env, n): the n-th enclosing frame.
func ghostUp(f *Frame, st, old *State, idx []spec.Expr, args []spec.Expr) TV {
	x := f.x
	if len(args) != 2 {
		specErr("up(env, n)")
	}
	e := f.eval(args[0], st, old)
	n := f.asInt64(f.coerce(f.eval(args[1], st, old), types.Typ[types.Int]))
	pt, ok := e.T.Underlying().(*types.Pointer)
	if !ok {
		specErr("up(env, n): env must be a pointer to a frame")
	}
	t := x.upTerm(st, e.V.(*smt.Term), n, pt.Elem())
	if x.fam != nil && x.fam.inSpec && !n.IsConst() && x.fam.specFrame == nil {
		// the frame a closure reaches by walking the chain in a loop (frame lemma, family.go)
		x.fam.specFrame = t
	}
	return TV{t, e.T}
}

// goeq(a, b): Go's == on basic values (IEEE equality on floats: NaN != NaN, -0 == +0).
func ghostGoEq(f *Frame, st, old *State, idx []spec.Expr, args []spec.Expr) TV {
	x := f.x
	B := x.B
	if len(args) != 2 {
		specErr("goeq(a, b)")
	}
	a := f.eval(args[0], st, old)
	b := f.eval(args[1], st, old)
	a, b = f.unify(a, b)
	bt := types.Typ[types.Bool]
	switch av := a.V.(type) {
	case *smt.Term:
		bv := b.V.(*smt.Term)
		if av.S.K == smt.KFP {
			return TV{B.FPCmp("fp.eq", av, bv), bt}
		}
		return TV{B.Eq(av, bv), bt}
	case *Struct:
		bs := b.V.(*Struct)
		if len(av.Fields) == 2 {
			if t, ok := av.Fields[0].(*smt.Term); ok && t.S.K == smt.KFP {
				return TV{B.And(B.FPCmp("fp.eq", t, bs.Fields[0].(*smt.Term)), B.FPCmp("fp.eq", av.Fields[1].(*smt.Term), bs.Fields[1].(*smt.Term))), bt}
			}
		}
		return TV{x.eqValue(a.V, b.V), bt}
	}
	specErr("goeq of %T", a.V)
	return TV{}
}

// funKind: for an interface value whose dynamic type is pinned to func(*Env) K on this path,
// K (as a reflect.Kind) and the function value.
func (fe *famEnv) funKind(i TV) (uint64, *smt.Term, bool) {
	x := fe.x
	fs, ok := i.V.(*Struct)
	if !ok || len(fs.Fields) != 2 {
		return 0, nil, false
	}
	tc, ok := fe.pinned(fs.Fields[0].(*smt.Term))
	if !ok {
		return 0, nil, false
	}
	ft := x.typeOf[int64(tc.Val)]
	if ft == nil {
		return 0, nil, false
	}
	sig, isSig := ft.Underlying().(*types.Signature)
	if !isSig || sig.Results().Len() != 1 {
		return 0, nil, false
	}
	b, isBasic := sig.Results().At(0).Type().Underlying().(*types.Basic)
	if !isBasic {
		return 0, nil, false
	}
	for k := uint64(1); k <= kString; k++ {
		if kt := KindType(k); kt != nil && kt.(*types.Basic).Kind() == b.Kind() {
			return k, x.scalar(fs.Fields[1], nil), true
		}
	}
	return 0, nil, false
}

// call(f): the result of calling, on env, the function held by the interface value f
// (dynamic type func(*Env) K pinned on this path).
func ghostCall(f *Frame, st, old *State, idx []spec.Expr, args []spec.Expr) TV {
	x := f.x
	fe := x.needFam("call")
	if len(args) != 1 {
		specErr("call(f)")
	}
	key := "call:" + args[0].String()
	if tv, ok := fe.memo[key]; ok {
		return tv
	}
	k, callee, ok := fe.funKind(fe.atCreation(args[0]))
	if !ok {
		specErr("the dynamic type of %s is not determined on this path", args[0])
	}
	gt := KindType(k)
	envT := types.NewPointer(fe.envType())
	sig := types.NewSignatureType(nil, nil, nil, types.NewTuple(types.NewVar(0, nil, "env", envT)), types.NewTuple(types.NewVar(0, nil, "", gt)), false)
	fe.sawCall = true
	callee = x.simplifyUnder(st.PC, callee)
	r := x.opaqueCall(nil, st, nil, callee, []Value{fe.env}, sig)
	tv := TV{r, gt}
	if fe.collect {
		fe.memo[key] = tv
	}
	return tv
}

// frame(v [, depth]): the run-time frame the compile-time variable v (a *Var, *Symbol, ...) lives
// in: up(env, v.Upn), or the file-level frame when v.Upn is depth-1 / depth (environment invariant).
func ghostFrame(f *Frame, st, old *State, idx []spec.Expr, args []spec.Expr) TV {
	x := f.x
	fe := x.needFam("frame")
	if len(args) < 1 {
		specErr("frame(v [, depth])")
	}
	par := fe.parent
	v := fe.atCreation(args[0])
	var depthT *smt.Term
	if len(args) > 1 {
		depthT = par.asInt64(fe.atCreation(args[1]))
	}
	sc, si := par.cur, par.curIdx
	par.cur, par.curIdx = nil, 0
	defer func() { par.cur, par.curIdx = sc, si }()
	upn := par.asInt64(par.selectField(v, "Upn", fe.create))
	envT := fe.envType()
	return TV{x.frameOf(fe, st, upn, depthT), types.NewPointer(envT)}
}

// callfunc(v): v is a reflect.Value handle (an element of Env.Vals) holding a function without
// parameters; the function it currently holds is called, and the results are those of the closure
// under contract (callNretM closures return what the callee returns).
func ghostCallFunc(f *Frame, st, old *State, idx []spec.Expr, args []spec.Expr) TV {
	x := f.x
	fe := x.needFam("callfunc")
	if len(args) != 1 {
		specErr("callfunc(v)")
	}
	v := f.eval(args[0], st, old)
	iface := x.rvInterface(st, rvOf(v.V))
	callee := x.scalar(iface.Fields[1], nil)
	res := f.fn.Signature.Results()
	sig := types.NewSignatureType(nil, nil, nil, types.NewTuple(), res, false)
	fe.sawCall = true
	r := x.opaqueCall(nil, st, nil, callee, nil, sig)
	if res.Len() == 1 {
		return TV{r, res.At(0).Type()}
	}
	return TV{r, res}
}

// frameup(n [, depth]): the frame n levels up, n being a value of the compile function (a local
// that was read from a Symbol before other calls): up(env, n), or the file-level frame when n is
// depth-1 / depth (environment invariant).
func ghostFrameUp(f *Frame, st, old *State, idx []spec.Expr, args []spec.Expr) TV {
	x := f.x
	fe := x.needFam("frameup")
	if len(args) < 1 {
		specErr("frameup(n [, depth])")
	}
	par := fe.parent
	n := par.asInt64(par.coerce(fe.atCreation(args[0]), types.Typ[types.Int]))
	n = x.simplifyUnder(fe.create.PC, n)
	var depthT *smt.Term
	if len(args) > 1 {
		depthT = par.asInt64(fe.atCreation(args[1]))
	}
	return TV{x.frameOf(fe, st, n, depthT), types.NewPointer(fe.envType())}
}
