package sym

import (
	"fmt"
	"go/constant"
	"go/token"
	"go/types"
	"strconv"
	"strings"

	"golang.org/x/tools/go/ssa"

	"gowp/smt"
	"gowp/spec"
)

// TV is a typed symbolic value of the contract language. T == nil means an untyped integer literal.
type TV struct {
	V Value
	T types.Type
}

type SpecError struct{ Msg string }

func (e SpecError) Error() string { return "contract error: " + e.Msg }

func specErr(format string, a ...interface{}) { panic(SpecError{fmt.Sprintf(format, a...)}) }

// GhostFn is a built-in function of the contract language.
type GhostFn func(f *Frame, st, old *State, idx []spec.Expr, args []spec.Expr) TV

func (f *Frame) evalBool(e spec.Expr, st, old *State) *smt.Term {
	tv := f.eval(e, st, old)
	t, ok := tv.V.(*smt.Term)
	if !ok || t.S != smt.Bool {
		specErr("boolean expected: %s", e)
	}
	return t
}

func (f *Frame) evalTerm(e spec.Expr, st, old *State) *smt.Term {
	tv := f.eval(e, st, old)
	t, ok := tv.V.(*smt.Term)
	if !ok {
		specErr("scalar expected: %s", e)
	}
	return t
}

func (f *Frame) pkg() *ssa.Package {
	fn := f.fn
	for fn.Parent() != nil {
		fn = fn.Parent()
	}
	return fn.Pkg
}

func basicByName(n string) types.Type {
	for _, t := range types.Typ {
		if t.Name() == n && t.Kind() != types.UnsafePointer { // (unsafe.Pointer's basic name is "Pointer")
			return t
		}
	}
	switch n {
	case "byte":
		return types.Typ[types.Uint8]
	case "rune":
		return types.Typ[types.Int32]
	}
	return nil
}

func (f *Frame) typeByName(n string) types.Type {
	if strings.HasPrefix(n, "*") {
		if t := f.typeByName(n[1:]); t != nil {
			return types.NewPointer(t)
		}
	}
	if t := basicByName(n); t != nil {
		return t
	}
	if p := f.pkg(); p != nil {
		if i := strings.Index(n, "."); i > 0 {
			// pkg.Name: a type of a package imported by the one under verification
			for _, imp := range p.Pkg.Imports() {
				if imp.Name() == n[:i] {
					if tn, ok := imp.Scope().Lookup(n[i+1:]).(*types.TypeName); ok {
						return tn.Type()
					}
				}
			}
			return nil
		}
		if o := p.Pkg.Scope().Lookup(n); o != nil {
			if tn, ok := o.(*types.TypeName); ok {
				return tn.Type()
			}
		}
	}
	return nil
}

func (f *Frame) eval(e spec.Expr, st, old *State) TV {
	x := f.x
	B := x.B
	switch e := e.(type) {
	case *spec.Lit:
		switch e.Kind {
		case "int":
			n, err := strconv.ParseUint(e.Val, 0, 64)
			if err != nil {
				specErr("bad integer %s", e.Val)
			}
			return TV{B.BVC(n, 64), nil}
		case "str":
			s, err := strconv.Unquote(e.Val)
			if err != nil {
				specErr("bad string %s", e.Val)
			}
			return TV{x.strConst(s), types.Typ[types.String]}
		case "char":
			r, _, _, err := strconv.UnquoteChar(e.Val[1:len(e.Val)-1], '\'')
			if err != nil {
				specErr("bad char %s", e.Val)
			}
			return TV{B.BVC(uint64(r), 64), nil}
		case "float":
			v, _ := strconv.ParseFloat(e.Val, 64)
			return TV{x.floatConst(v, smt.FP64), types.Typ[types.Float64]}
		}
	case *spec.Ident:
		return f.evalIdent(e.Name, st, old)
	case *spec.Sel:
		// package-qualified name?
		if id, ok := e.X.(*spec.Ident); ok {
			if _, isLocal := f.tryIdent(id.Name, st); !isLocal {
				if tv, ok := f.qualified(id.Name, e.Name, st); ok {
					return tv
				}
			}
		}
		xv := f.eval(e.X, st, old)
		return f.selectField(xv, e.Name, st)
	case *spec.Index:
		xv := f.eval(e.X, st, old)
		iv := f.eval(e.I, st, old)
		return f.indexValue(xv, iv, st)
	case *spec.SliceE:
		xv := f.eval(e.X, st, old)
		return f.sliceValue(xv, e, st, old)
	case *spec.Unary:
		if e.Op == "*" {
			xv := f.eval(e.X, st, old)
			pt, ok := xv.T.Underlying().(*types.Pointer)
			if !ok {
				specErr("dereference of non-pointer %s", e.X)
			}
			return TV{x.load(st, xv.V, pt.Elem()), pt.Elem()}
		}
		if e.Op == "&" {
			p, t := f.evalAddr(e.X, st, old)
			return TV{p, types.NewPointer(t)}
		}
		xv := f.eval(e.X, st, old)
		if cs, ok := xv.V.(*Struct); ok && e.Op == "-" && len(cs.Fields) == 2 {
			// complex negation
			return TV{&Struct{[]Value{B.FPNeg(cs.Fields[0].(*smt.Term)), B.FPNeg(cs.Fields[1].(*smt.Term))}}, xv.T}
		}
		t := xv.V.(*smt.Term)
		switch e.Op {
		case "!":
			return TV{B.Not(t), xv.T}
		case "-":
			if t.S.K == smt.KFP {
				return TV{B.FPNeg(t), xv.T}
			}
			return TV{B.BVNeg(t), xv.T}
		case "^":
			return TV{B.BVNot(t), xv.T}
		}
	case *spec.Binary:
		return f.evalBinary(e, st, old)
	case *spec.Cond:
		c := f.evalBool(e.C, st, old)
		a := f.eval(e.X, st, old)
		b := f.eval(e.Y, st, old)
		a, b = f.unify(a, b)
		return TV{x.ite(c, a.V, b.V), a.T}
	case *spec.Quant:
		return f.evalQuant(e, st, old)
	case *spec.Call:
		return f.evalCall(e, st, old)
	}
	specErr("cannot evaluate %s", e)
	return TV{}
}

func (f *Frame) tryIdent(name string, st *State) (TV, bool) {
	if v, ok := f.overTV[name]; ok {
		return v, true
	}
	if v, ok := f.over[name]; ok {
		return TV{v, f.overType(name)}, true
	}
	if f.inOld > 0 {
		for _, p := range f.fn.Params {
			if p.Name() == name {
				return TV{f.val(p), p.Type()}, true
			}
		}
	}
	if d, ok := f.lookupName(name); ok {
		v := f.val(d.v)
		t := d.v.Type()
		if d.addr {
			pt := t.Underlying().(*types.Pointer).Elem()
			return TV{f.x.load(st, v, pt), pt}, true
		}
		return TV{v, t}, true
	}
	return TV{}, false
}

func (f *Frame) overType(name string) types.Type {
	res := f.fn.Signature.Results()
	if name == "result" && res.Len() == 1 {
		return res.At(0).Type()
	}
	for i := 0; i < res.Len(); i++ {
		if res.At(i).Name() == name || fmt.Sprintf("result%d", i) == name {
			return res.At(i).Type()
		}
		if f.spec != nil && i < len(f.spec.Results) && f.spec.Results[i] == name {
			return res.At(i).Type()
		}
	}
	return nil
}

func (f *Frame) evalIdent(name string, st, old *State) TV {
	x := f.x
	B := x.B
	switch name {
	case "true":
		return TV{B.True(), types.Typ[types.Bool]}
	case "false":
		return TV{B.False(), types.Typ[types.Bool]}
	case "nil":
		return TV{nil, types.Typ[types.UntypedNil]}
	}
	if tv, ok := f.tryIdent(name, st); ok {
		return tv
	}
	// receiver / parameters of enclosing functions (for closures)
	if f.outer != nil {
		if tv, ok := f.outer.tryIdent(name, st); ok {
			return tv
		}
	}
	// package-level constants and variables
	if p := f.pkg(); p != nil {
		if tv, ok := f.pkgMember(p, name, st); ok {
			return tv
		}
	}
	specErr("unknown name %q in contract of %s (at block %v)", name, FuncName(f.fn), f.cur)
	return TV{}
}

func (f *Frame) pkgMember(p *ssa.Package, name string, st *State) (TV, bool) {
	x := f.x
	switch m := p.Members[name].(type) {
	case *ssa.NamedConst:
		return TV{x.constValue(m.Value), m.Type()}, true
	case *ssa.Global:
		pt := m.Type().(*types.Pointer).Elem()
		ptr := &Ptr{Glob: m, Key: "glob:" + m.Pkg.Pkg.Path() + "." + m.Name(), Type: pt}
		return TV{x.load(st, ptr, pt), pt}, true
	}
	return TV{}, false
}

func (f *Frame) qualified(pkgName, name string, st *State) (TV, bool) {
	p := f.pkg()
	if p == nil {
		return TV{}, false
	}
	for _, imp := range p.Pkg.Imports() {
		if imp.Name() == pkgName || aliasMatches(f, pkgName, imp) {
			sp := f.x.Prog.Package(imp)
			if sp == nil {
				continue
			}
			if tv, ok := f.pkgMember(sp, name, st); ok {
				return tv, true
			}
		}
	}
	return TV{}, false
}

func aliasMatches(f *Frame, alias string, imp *types.Package) bool {
	// common aliases used in the gomacro sources
	switch alias {
	case "xr":
		return strings.HasSuffix(imp.Path(), "/xreflect")
	case "r":
		return imp.Path() == "reflect"
	}
	return false
}

func (f *Frame) selectField(xv TV, name string, st *State) TV {
	x := f.x
	t := xv.T
	if t == nil {
		specErr("field %s of untyped value", name)
	}
	var stT types.Type
	isPtr := false
	if pt, ok := t.Underlying().(*types.Pointer); ok {
		stT = pt.Elem()
		isPtr = true
	} else {
		stT = t
	}
	su, ok := stT.Underlying().(*types.Struct)
	if !ok {
		specErr("field %s of non-struct %s", name, t)
	}
	// direct or promoted through embedded fields
	path := findField(su, name)
	if path == nil {
		specErr("type %s has no field %s", stT, name)
	}
	cur := xv.V
	curT := stT
	for pos, idx := range path {
		last := pos == len(path)-1
		cs := curT.Underlying().(*types.Struct)
		fld := cs.Field(idx)
		if isPtr {
			p := x.fieldAddr(cur, curT, idx)
			if pp, ok := fld.Type().Underlying().(*types.Pointer); ok && !last {
				cur = x.load(st, p, fld.Type())
				curT = pp.Elem()
				continue
			}
			if last {
				return TV{x.load(st, p, fld.Type()), fld.Type()}
			}
			cur = p
			curT = fld.Type()
		} else {
			s, ok := cur.(*Struct)
			if !ok {
				specErr("field %s of opaque value", name)
			}
			cur = s.Fields[idx]
			curT = fld.Type()
			if pp, ok := curT.Underlying().(*types.Pointer); ok && !last {
				isPtr = true
				curT = pp.Elem()
			}
		}
	}
	return TV{cur, curT}
}

func findField(su *types.Struct, name string) []int {
	for i := 0; i < su.NumFields(); i++ {
		if su.Field(i).Name() == name {
			return []int{i}
		}
	}
	for i := 0; i < su.NumFields(); i++ {
		fl := su.Field(i)
		if !fl.Embedded() {
			continue
		}
		t := fl.Type()
		if p, ok := t.Underlying().(*types.Pointer); ok {
			t = p.Elem()
		}
		if es, ok := t.Underlying().(*types.Struct); ok {
			if sub := findField(es, name); sub != nil {
				return append([]int{i}, sub...)
			}
		}
	}
	return nil
}

func (f *Frame) asInt64(tv TV) *smt.Term {
	t := tv.V.(*smt.Term)
	if t.S.K != smt.KBV {
		specErr("integer expected")
	}
	if t.S.W == 64 {
		return t
	}
	if tv.T == nil || isSigned(tv.T) {
		return f.x.B.SignExt(64-t.S.W, t)
	}
	return f.x.B.ZeroExt(64-t.S.W, t)
}

func (f *Frame) indexValue(xv, iv TV, st *State) TV {
	x := f.x
	B := x.B
	switch t := xv.T.Underlying().(type) {
	case *types.Slice:
		arr, off, _, _ := sliceParts(xv.V)
		p := &Ptr{Arr: arr, Idx: B.IndexAdd(off, f.asInt64(iv)), Off: off, Rel: f.asInt64(iv), Key: "[]" + typeKey(t.Elem()), Type: t.Elem()}
		return TV{x.load(st, p, t.Elem()), t.Elem()}
	case *types.Array:
		s := xv.V.(*Struct)
		ls := flatten(t.Elem())
		ts := make([]*smt.Term, len(ls))
		for i := range ls {
			ts[i] = B.Select(s.Fields[i].(*smt.Term), f.asInt64(iv))
		}
		return TV{x.fromLeaves(t.Elem(), &ts), t.Elem()}
	case *types.Map:
		if _, isIface := t.Key().Underlying().(*types.Interface); isIface {
			v, _ := x.mapRead(st, t, xv.V.(*smt.Term), x.mapKeyTerm(f.coerce(iv, t.Key()).V, t.Key()))
			return TV{v, t.Elem()}
		}
		k := iv.V.(*smt.Term)
		ks := mapKeySort(t)
		if k.S != ks && k.S.K == smt.KBV && ks.K == smt.KBV {
			k = f.coerce(iv, t.Key()).V.(*smt.Term)
		}
		v, _ := x.mapRead(st, t, xv.V.(*smt.Term), k)
		return TV{v, t.Elem()}
	case *types.Basic:
		return TV{x.strAt(xv.V.(*smt.Term), f.asInt64(iv)), types.Typ[types.Uint8]}
	case *types.Pointer:
		if at, ok := t.Elem().Underlying().(*types.Array); ok {
			p := x.asPtr(xv.V, t.Elem())
			n := *p
			n.Type = at.Elem()
			if p.Ref != nil {
				n.Key = p.Key + "[]"
				n.SubIdx = f.asInt64(iv)
			} else if p.Cell != nil {
				n.Path = append(append([]step{}, p.Path...), step{field: -1, index: f.asInt64(iv)})
			}
			return TV{x.load(st, &n, at.Elem()), at.Elem()}
		}
	}
	specErr("cannot index %s", xv.T)
	return TV{}
}

func (f *Frame) sliceValue(xv TV, e *spec.SliceE, st, old *State) TV {
	x := f.x
	B := x.B
	switch xv.T.Underlying().(type) {
	case *types.Slice:
		arr, off, ln, cp := sliceParts(xv.V)
		lo := B.BVC(0, 64)
		hi := ln
		if e.Lo != nil {
			lo = f.asInt64(f.eval(e.Lo, st, old))
		}
		if e.Hi != nil {
			hi = f.asInt64(f.eval(e.Hi, st, old))
		}
		return TV{&Struct{[]Value{arr, B.BVBin("bvadd", off, lo), B.BVBin("bvsub", hi, lo), B.BVBin("bvsub", cp, lo)}}, xv.T}
	case *types.Basic:
		s := xv.V.(*smt.Term)
		lo := B.BVC(0, 64)
		hi := x.strLen(s)
		if e.Lo != nil {
			lo = f.asInt64(f.eval(e.Lo, st, old))
		}
		if e.Hi != nil {
			hi = f.asInt64(f.eval(e.Hi, st, old))
		}
		return TV{x.strSub(s, lo, hi), xv.T}
	}
	specErr("cannot slice %s", xv.T)
	return TV{}
}

// coerce adapts an untyped literal (or an integer of another width) to type t.
func (f *Frame) coerce(v TV, t types.Type) TV {
	B := f.x.B
	if v.T != nil && v.T != types.Typ[types.UntypedNil] {
		return v
	}
	if v.T == types.Typ[types.UntypedNil] || v.V == nil {
		return TV{f.x.zeroValue(t), t}
	}
	tm := v.V.(*smt.Term)
	ls := flatten(t)
	if len(ls) != 1 {
		specErr("literal used as %s", t)
	}
	s := ls[0].Sort
	switch s.K {
	case smt.KBV:
		if tm.Op == "bv" {
			return TV{B.BVC(tm.Val, s.W), t}
		}
		if tm.S.W > s.W {
			return TV{B.Extract(s.W-1, 0, tm), t}
		}
		return TV{tm, t}
	case smt.KInt:
		if tm.Op == "bv" {
			return TV{B.IntC(int64(tm.Val)), t}
		}
	case smt.KFP:
		if tm.Op == "bv" {
			return TV{f.x.floatConst(float64(int64(tm.Val)), s), t}
		}
	}
	specErr("cannot use literal as %s", t)
	return TV{}
}

func (f *Frame) unify(a, b TV) (TV, TV) {
	if a.T == nil && b.T != nil || (a.T == types.Typ[types.UntypedNil] && b.T != nil) {
		a = f.coerce(a, b.T)
	}
	if b.T == nil && a.T != nil || (b.T == types.Typ[types.UntypedNil] && a.T != nil) {
		b = f.coerce(b, a.T)
	}
	// ghost Int (references / mathematical) vs bit-vector literal
	return a, b
}

func (f *Frame) evalBinary(e *spec.Binary, st, old *State) TV {
	x := f.x
	B := x.B
	boolT := types.Typ[types.Bool]
	switch e.Op {
	case "==>", "&&", "||":
		// short-circuit when the left operand is decided by the path condition: the right operand
		// may not be evaluable then (p != nil && p.f() ...)
		l := f.evalBool(e.X, st, old)
		ls := x.simplifyUnder(st.PC, l)
		switch {
		case e.Op == "==>" && ls.IsFalse():
			return TV{B.True(), boolT}
		case e.Op == "&&" && ls.IsFalse():
			return TV{B.False(), boolT}
		case e.Op == "||" && ls.IsTrue():
			return TV{B.True(), boolT}
		}
		r := f.evalBool(e.Y, st, old)
		switch e.Op {
		case "==>":
			return TV{B.Implies(l, r), boolT}
		case "&&":
			return TV{B.And(l, r), boolT}
		}
		return TV{B.Or(l, r), boolT}
	case "<==>":
		return TV{B.Eq(f.evalBool(e.X, st, old), f.evalBool(e.Y, st, old)), boolT}
	}
	a := f.eval(e.X, st, old)
	b := f.eval(e.Y, st, old)
	if e.Op == "<<" || e.Op == ">>" {
		// Go's shift: the result has the type of the left operand; the count is any integer kind
		// (taken as unsigned here: a negative count panics in Go and is excluded where it matters)
		at, aok := a.V.(*smt.Term)
		bt, bok := b.V.(*smt.Term)
		if aok && bok && at.S.K == smt.KBV && bt.S.K == smt.KBV && a.T != nil {
			op := token.SHL
			if e.Op == ">>" {
				op = token.SHR
			}
			return TV{x.shiftTerm(op, at, bt, isSigned(a.T), at.S.W, bt.S.W), a.T}
		}
	}
	if (e.Op != "==" && e.Op != "!=") || (a.V != nil && b.V != nil) {
		a, b = f.unify(a, b)
	}
	switch e.Op {
	case "==", "!=":
		var eq *smt.Term
		if a.V == nil && b.V == nil {
			eq = B.True()
		} else {
			eq = x.eqSpec(a, b)
		}
		if e.Op == "!=" {
			eq = B.Not(eq)
		}
		return TV{eq, boolT}
	}
	at, aok := a.V.(*smt.Term)
	bt, bok := b.V.(*smt.Term)
	if !aok || !bok {
		if as, ok := a.V.(*Struct); ok && len(as.Fields) == 2 {
			if bs, ok := b.V.(*Struct); ok && len(bs.Fields) == 2 {
				// complex arithmetic
				if bb, ok := a.T.Underlying().(*types.Basic); ok && bb.Info()&types.IsComplex != 0 {
					return TV{x.complexOp(tokenOf(e.Op), as, bs, bb.Kind() == types.Complex64), a.T}
				}
			}
		}
		specErr("operator %s on composite values in %s", e.Op, e)
	}
	if at.S != bt.S {
		// widths may differ between a typed operand and a derived literal
		if at.S.K == smt.KBV && bt.S.K == smt.KBV {
			if at.S.W < bt.S.W {
				at = f.extend(at, a.T, bt.S.W)
			} else {
				bt = f.extend(bt, b.T, at.S.W)
			}
		} else {
			specErr("operand sorts differ in %s: %s vs %s", e, at.S, bt.S)
		}
	}
	rt := a.T
	if rt == nil {
		rt = b.T
	}
	sg := rt == nil || isSigned(rt)
	switch at.S.K {
	case smt.KInt:
		switch e.Op {
		case "+", "-", "*":
			return TV{B.IntOp(e.Op, at, bt), rt}
		case "<", "<=", ">", ">=":
			return TV{B.IntOp(e.Op, at, bt), boolT}
		}
	case smt.KFP:
		switch e.Op {
		case "+":
			return TV{B.FPBin("fp.add", at, bt), rt}
		case "-":
			return TV{B.FPBin("fp.sub", at, bt), rt}
		case "*":
			return TV{B.FPBin("fp.mul", at, bt), rt}
		case "/":
			return TV{B.FPBin("fp.div", at, bt), rt}
		case "<":
			return TV{B.FPCmp("fp.lt", at, bt), boolT}
		case "<=":
			return TV{B.FPCmp("fp.leq", at, bt), boolT}
		case ">":
			return TV{B.FPCmp("fp.gt", at, bt), boolT}
		case ">=":
			return TV{B.FPCmp("fp.geq", at, bt), boolT}
		}
	case smt.KUn:
		if at.S == StrS {
			switch e.Op {
			case "<":
				return TV{x.strLess(at, bt), boolT}
			case ">":
				return TV{x.strLess(bt, at), boolT}
			case "<=":
				return TV{B.Not(x.strLess(bt, at)), boolT}
			case ">=":
				return TV{B.Not(x.strLess(at, bt)), boolT}
			case "+":
				return TV{x.strConcat(at, bt), rt}
			}
		}
	case smt.KBool:
	case smt.KBV:
		w := at.S.W
		switch e.Op {
		case "+":
			return TV{B.BVBin("bvadd", at, bt), rt}
		case "-":
			return TV{B.BVBin("bvsub", at, bt), rt}
		case "*":
			return TV{B.BVBin("bvmul", at, bt), rt}
		case "/":
			if sg {
				return TV{B.BVBin("bvsdiv", at, bt), rt}
			}
			return TV{B.BVBin("bvudiv", at, bt), rt}
		case "%":
			if sg {
				return TV{B.BVBin("bvsrem", at, bt), rt}
			}
			return TV{B.BVBin("bvurem", at, bt), rt}
		case "&":
			return TV{B.BVBin("bvand", at, bt), rt}
		case "|":
			return TV{B.BVBin("bvor", at, bt), rt}
		case "^":
			return TV{B.BVBin("bvxor", at, bt), rt}
		case "&^":
			return TV{B.BVBin("bvand", at, B.BVNot(bt)), rt}
		case "<<":
			return TV{x.shiftTerm(token.SHL, at, bt, sg, w, w), rt}
		case ">>":
			return TV{x.shiftTerm(token.SHR, at, bt, sg, w, w), rt}
		case "<", "<=", ">", ">=":
			o := map[string]string{"<": "bvult", "<=": "bvule", ">": "bvugt", ">=": "bvuge"}[e.Op]
			if sg {
				o = map[string]string{"<": "bvslt", "<=": "bvsle", ">": "bvsgt", ">=": "bvsge"}[e.Op]
			}
			return TV{B.BVCmp(o, at, bt), boolT}
		}
	}
	specErr("operator %s not defined on %s in %s", e.Op, at.S, e)
	return TV{}
}

func tokenOf(op string) token.Token {
	switch op {
	case "+":
		return token.ADD
	case "-":
		return token.SUB
	case "*":
		return token.MUL
	case "/":
		return token.QUO
	}
	specErr("operator %s on complex", op)
	return token.ILLEGAL
}

func (f *Frame) extend(t *smt.Term, gt types.Type, w int) *smt.Term {
	if gt == nil || isSigned(gt) {
		return f.x.B.SignExt(w-t.S.W, t)
	}
	return f.x.B.ZeroExt(w-t.S.W, t)
}

// eqSpec: == of the contract language is identity (all NaNs identified, -0 != +0).
func (x *Exec) eqSpec(a, b TV) *smt.Term {
	// slice compared with nil: the array identity is nil
	if a.V == nil && b.T != nil {
		if _, isSlice := b.T.Underlying().(*types.Slice); isSlice {
			return x.B.Eq(b.V.(*Struct).Fields[0].(*smt.Term), x.B.IntC(0))
		}
	}
	if b.V == nil && a.T != nil {
		if _, isSlice := a.T.Underlying().(*types.Slice); isSlice {
			return x.B.Eq(a.V.(*Struct).Fields[0].(*smt.Term), x.B.IntC(0))
		}
	}
	// interface compared with the nil literal: only the type word matters
	if a.V == nil && b.T != nil {
		if _, isIface := b.T.Underlying().(*types.Interface); isIface {
			return x.B.Eq(b.V.(*Struct).Fields[0].(*smt.Term), x.B.IntC(0))
		}
	}
	if b.V == nil && a.T != nil {
		if _, isIface := a.T.Underlying().(*types.Interface); isIface {
			return x.B.Eq(a.V.(*Struct).Fields[0].(*smt.Term), x.B.IntC(0))
		}
	}
	if a.V == nil {
		a = TV{x.zeroValue(b.T), b.T}
	}
	if b.V == nil {
		b = TV{x.zeroValue(a.T), a.T}
	}
	// interface compared with nil: type word is zero
	if _, ok := a.V.(*Struct); ok {
		if _, isIface := a.T.Underlying().(*types.Interface); isIface {
			return x.ifaceEq(a.V, b.V)
		}
	}
	at, aok := a.V.(*smt.Term)
	bt, bok := b.V.(*smt.Term)
	if aok && bok && at.S != bt.S && at.S.K == smt.KBV && bt.S.K == smt.KBV {
		if at.S.W < bt.S.W {
			if a.T == nil || isSigned(a.T) {
				at = x.B.SignExt(bt.S.W-at.S.W, at)
			} else {
				at = x.B.ZeroExt(bt.S.W-at.S.W, at)
			}
		} else {
			if b.T == nil || isSigned(b.T) {
				bt = x.B.SignExt(at.S.W-bt.S.W, bt)
			} else {
				bt = x.B.ZeroExt(at.S.W-bt.S.W, bt)
			}
		}
		return x.B.Eq(at, bt)
	}
	return x.eqValue(a.V, b.V)
}

func (f *Frame) evalQuant(e *spec.Quant, st, old *State) TV {
	x := f.x
	B := x.B
	var vars []*smt.Term
	saved := map[string]TV{}
	had := map[string]bool{}
	var guard []*smt.Term
	x.qN++
	for _, n := range e.Vars {
		if v, ok := f.overTV[n]; ok {
			saved[n] = v
			had[n] = true
		}
		var bv *smt.Term
		var t types.Type
		if e.Lo != nil {
			bv = B.BoundVar(fmt.Sprintf("%s_%d", n, x.qN), I64)
			t = types.Typ[types.Int]
		} else {
			tn := e.Hi.(*spec.Ident).Name
			t = f.typeByName(tn)
			if t == nil {
				specErr("unknown type %s in quantifier", tn)
			}
			ls := flatten(t)
			if len(ls) != 1 {
				specErr("quantification over composite type %s", tn)
			}
			bv = B.BoundVar(fmt.Sprintf("%s_%d", n, x.qN), ls[0].Sort)
		}
		vars = append(vars, bv)
		f.overTV[n] = TV{bv, t}
	}
	if e.Lo != nil {
		lo := f.asInt64(f.eval(e.Lo, st, old))
		hi := f.asInt64(f.eval(e.Hi, st, old))
		for _, v := range vars {
			guard = append(guard, B.BVCmp("bvsle", lo, v), B.BVCmp("bvslt", v, hi))
		}
	}
	body := f.evalBool(e.Body, st, old)
	for _, n := range e.Vars {
		if had[n] {
			f.overTV[n] = saved[n]
		} else {
			delete(f.overTV, n)
		}
	}
	g := B.And(guard...)
	if e.Forall {
		return TV{B.Forall(vars, B.Implies(g, body)), types.Typ[types.Bool]}
	}
	return TV{B.Exists(vars, B.And(g, body)), types.Typ[types.Bool]}
}

func (f *Frame) evalCall(e *spec.Call, st, old *State) TV {
	x := f.x
	B := x.B
	var name string
	var idx []spec.Expr
	switch fn := e.Fun.(type) {
	case *spec.Ident:
		name = fn.Name
	case *spec.Index:
		if id, ok := fn.X.(*spec.Ident); ok {
			name = id.Name
			idx = []spec.Expr{fn.I}
		}
	case *spec.Sel:
		// method call on a value, or package-qualified function
		return f.evalMethodCall(fn, e.Args, st, old)
	}
	if name == "" {
		specErr("cannot call %s", e.Fun)
	}
	switch name {
	case "old":
		if len(e.Args) != 1 {
			specErr("old takes one argument")
		}
		// inside old(): the heap of the entry state, and parameters stand for their entry values
		f.inOld++
		defer func() { f.inOld-- }()
		return f.eval(e.Args[0], old, old)
	case "len", "cap":
		a := f.eval(e.Args[0], st, old)
		switch t := a.T.Underlying().(type) {
		case *types.Slice:
			_, _, ln, cp := sliceParts(a.V)
			if name == "cap" {
				return TV{cp, types.Typ[types.Int]}
			}
			return TV{ln, types.Typ[types.Int]}
		case *types.Basic:
			return TV{x.strLen(a.V.(*smt.Term)), types.Typ[types.Int]}
		case *types.Map:
			return TV{x.mapLen(st, t, a.V.(*smt.Term)), types.Typ[types.Int]}
		case *types.Array:
			return TV{B.BVC(uint64(t.Len()), 64), types.Typ[types.Int]}
		}
		specErr("len of %s", a.T)
	case "HasPrefix":
		return TV{x.hasPrefix(f.evalTerm(e.Args[0], st, old), f.evalTerm(e.Args[1], st, old)), types.Typ[types.Bool]}
	case "haskey":
		m := f.eval(e.Args[0], st, old)
		mt := m.T.Underlying().(*types.Map)
		k := f.coerce(f.eval(e.Args[1], st, old), mt.Key())
		_, ok := x.mapRead(st, mt, m.V.(*smt.Term), x.mapKeyTerm(k.V, mt.Key()))
		return TV{ok, types.Typ[types.Bool]}
	case "base":
		a := f.eval(e.Args[0], st, old)
		arr, off, _, _ := sliceParts(a.V)
		_ = off
		return TV{arr, types.Typ[types.UnsafePointer]}
	case "offset":
		a := f.eval(e.Args[0], st, old)
		_, off, _, _ := sliceParts(a.V)
		return TV{off, types.Typ[types.Int]}
	case "dyn":
		// dyn(e, T): the interface value e holds a value of dynamic type T (dyn(e, nil): e is the nil interface)
		if len(e.Args) != 2 {
			specErr("dyn(e, T)")
		}
		a := f.eval(e.Args[0], st, old)
		iv, ok := a.V.(*Struct)
		if _, isIface := a.T.Underlying().(*types.Interface); !isIface || !ok {
			specErr("dyn: %s is not an interface value", e.Args[0])
		}
		tn := strings.ReplaceAll(e.Args[1].String(), " ", "")
		if tn == "nil" {
			return TV{B.Eq(iv.Fields[0].(*smt.Term), B.IntC(0)), types.Typ[types.Bool]}
		}
		t := f.typeByName(tn)
		if t == nil {
			specErr("dyn: unknown type %s", tn)
		}
		return TV{B.Eq(iv.Fields[0].(*smt.Term), x.typeID(t)), types.Typ[types.Bool]}
	case "prev":
		// prev(e): e with the loop's variables at the values they had at the start of the iteration
		// (only inside a "loop N step" clause)
		if len(e.Args) != 1 || f.prevVals == nil {
			specErr("prev(e) is only meaningful in a loop step clause")
		}
		cur := map[*ssa.Phi]Value{}
		for phi, v := range f.prevVals {
			cur[phi] = f.regs[phi]
			f.regs[phi] = v
		}
		pv := f.prevVals
		f.prevVals = nil
		defer func() {
			for phi, v := range cur {
				f.regs[phi] = v
			}
			f.prevVals = pv
		}()
		return f.eval(e.Args[0], st, old)
	case "elemindex":
		// elemindex(p, s): the index i such that p == &s[i], for a pointer p into the array of slice s
		// (meaningless otherwise: say p == &s[elemindex(p, s)] next to it)
		if len(e.Args) != 2 {
			specErr("elemindex(p, s)")
		}
		pv := f.eval(e.Args[0], st, old)
		sv := f.eval(e.Args[1], st, old)
		p, ok := pv.V.(*Ptr)
		if !ok || p.Arr == nil {
			specErr("elemindex: %s is not the address of a slice element", e.Args[0])
		}
		_, off, _, _ := sliceParts(sv.V)
		if p.Off == off && p.Rel != nil {
			return TV{p.Rel, types.Typ[types.Int]}
		}
		return TV{B.BVBin("bvsub", p.Idx, off), types.Typ[types.Int]}
	case "dynval":
		// dynval(e, T): the value of type T held by the interface value e (meaningful under dyn(e, T))
		if len(e.Args) != 2 {
			specErr("dynval(e, T)")
		}
		a := f.eval(e.Args[0], st, old)
		iv, ok := a.V.(*Struct)
		if _, isIface := a.T.Underlying().(*types.Interface); !isIface || !ok {
			specErr("dynval: %s is not an interface value", e.Args[0])
		}
		tn := strings.ReplaceAll(e.Args[1].String(), " ", "")
		t := f.typeByName(tn)
		if t == nil {
			specErr("dynval: unknown type %s", tn)
		}
		return TV{x.unbox(iv.Fields[1], t), t}
	case "dynptr":
		// dynptr(e): the data word of the interface value e (the pointer itself when e holds a pointer)
		a := f.eval(e.Args[0], st, old)
		iv, ok := a.V.(*Struct)
		if _, isIface := a.T.Underlying().(*types.Interface); !isIface || !ok {
			specErr("dynptr: %s is not an interface value", e.Args[0])
		}
		return TV{x.scalar(iv.Fields[1], nil), types.Typ[types.UnsafePointer]}
	case "allocated":
		// allocated(p): the reference p denotes an object that exists in the current state
		a := f.eval(e.Args[0], st, old)
		live := x.heapGet(st, "$live", smt.Array(RefS, smt.Bool))
		return TV{B.Select(live, x.scalar(a.V, a.T)), types.Typ[types.Bool]}
	case "captures":
		// captures(name): only meaningful in the guard of a closure clause
		if len(e.Args) != 1 {
			specErr("captures(name)")
		}
		id, ok := e.Args[0].(*spec.Ident)
		if !ok {
			specErr("captures(name): a plain identifier")
		}
		if x.capNames == nil {
			specErr("captures() outside the guard of a closure clause")
		}
		_, has := x.capNames["captures$"+id.Name]
		return TV{B.BoolC(has), types.Typ[types.Bool]}
	case "strcount":
		// strcount(s, sub): what strings.Count(s, sub) returns (an uninterpreted function, >= 0)
		if len(e.Args) != 2 {
			specErr("strcount(s, sub)")
		}
		return TV{x.strCount(f.evalTerm(e.Args[0], st, old), f.evalTerm(e.Args[1], st, old)), types.Typ[types.Int]}
	case "aftercall":
		// aftercall("callee", e): e evaluated in the state just after the (single) static call of
		// callee made by the function under verification returned
		if len(e.Args) != 2 {
			specErr("aftercall(\"callee\", e)")
		}
		lit, ok := e.Args[0].(*spec.Lit)
		if !ok {
			specErr("aftercall: the callee is given as a string literal")
		}
		callee, err := strconv.Unquote(lit.Val)
		if err != nil {
			specErr("aftercall: %v", err)
		}
		var rec *callRec
		for fr := f; fr != nil && rec == nil; fr = fr.outer {
			if fr.callHist != nil {
				rec = fr.callHist[callee]
			}
		}
		if rec == nil || rec.post == nil {
			specErr("aftercall(%q, e): no such call on any path", callee)
		}
		if rec.n > 1 {
			specErr("aftercall(%q, e): the function calls it at %d sites; the history ghost covers a single call site", callee, rec.n)
		}
		return f.eval(e.Args[1], rec.post, old)
	case "wascalled", "lastcall":
		// ghost call history: wascalled("callee") is the path condition under which the function
		// under verification made its (last) static call of callee; lastcall("callee", i) its i-th result
		if len(e.Args) < 1 {
			specErr("%s(\"callee\" ...)", name)
		}
		lit, ok := e.Args[0].(*spec.Lit)
		if !ok {
			specErr("%s: the callee is given as a string literal", name)
		}
		callee, err := strconv.Unquote(lit.Val)
		if err != nil {
			specErr("%s: %v", name, err)
		}
		var rec *callRec
		for fr := f; fr != nil && rec == nil; fr = fr.outer {
			if fr.callHist != nil {
				rec = fr.callHist[callee]
			}
		}
		if name == "wascalled" {
			if rec == nil {
				if !f.top && f.caller != nil {
					// the contract is being assumed at a call site: the callee's own call history is
					// not known there (it is a fact about its body, proved where the callee is verified)
					return TV{B.Fresh("wascalled", smt.Bool), types.Typ[types.Bool]}
				}
				return TV{B.False(), types.Typ[types.Bool]}
			}
			if rec.n > 1 {
				specErr("wascalled(%q): the function calls it at %d sites; the history ghost covers a single call site", callee, rec.n)
			}
			return TV{rec.pc, types.Typ[types.Bool]}
		}
		if rec == nil || len(e.Args) != 2 {
			specErr("lastcall(%q, i): no such call on any path / index missing", callee)
		}
		il, ok := e.Args[1].(*spec.Lit)
		if !ok {
			specErr("lastcall: the result index is a literal")
		}
		i, _ := strconv.Atoi(il.Val)
		if i < 0 || i >= len(rec.results) {
			specErr("lastcall(%q, %d): the callee has %d results", callee, i, len(rec.results))
		}
		return TV{rec.results[i], rec.types[i]}
	case "real", "imag":
		if len(e.Args) != 1 {
			specErr("%s(z)", name)
		}
		a := f.eval(e.Args[0], st, old)
		cs, ok := a.V.(*Struct)
		if !ok || len(cs.Fields) != 2 || a.T == nil {
			specErr("%s of a non-complex value", name)
		}
		ft := types.Typ[types.Float64]
		if b, ok := a.T.Underlying().(*types.Basic); ok && b.Kind() == types.Complex64 {
			ft = types.Typ[types.Float32]
		}
		if name == "real" {
			return TV{cs.Fields[0], ft}
		}
		return TV{cs.Fields[1], ft}
	case "fpeq":
		return TV{B.FPCmp("fp.eq", f.evalTerm(e.Args[0], st, old), f.evalTerm(e.Args[1], st, old)), types.Typ[types.Bool]}
	}
	if g, ok := x.Ghosts[name]; ok {
		return g(f, st, old, idx, e.Args)
	}
	// conversions T(x)
	if t := f.typeByName(name); t != nil && len(e.Args) == 1 {
		a := f.eval(e.Args[0], st, old)
		if a.T == nil {
			return f.coerce(a, t)
		}
		return TV{x.convertValue(st, a.V, a.T, t), t}
	}
	// predicates
	if p := x.predFor(f.pkg(), name); p != nil {
		if len(p.Params) != len(e.Args) {
			specErr("predicate %s takes %d arguments", name, len(p.Params))
		}
		saved := map[string]TV{}
		had := map[string]bool{}
		var argv []TV
		for _, a := range e.Args {
			argv = append(argv, f.eval(a, st, old))
		}
		for i, pn := range p.Params {
			if v, ok := f.overTV[pn]; ok {
				saved[pn] = v
				had[pn] = true
			}
			f.overTV[pn] = argv[i]
		}
		r := f.eval(p.Body, st, old)
		for _, pn := range p.Params {
			if had[pn] {
				f.overTV[pn] = saved[pn]
			} else {
				delete(f.overTV, pn)
			}
		}
		return r
	}
	// pure Go functions of the package, executed symbolically on a copy of the state
	if p := f.pkg(); p != nil {
		if fn := p.Func(name); fn != nil {
			var args []Value
			for i, a := range e.Args {
				av := f.eval(a, st, old)
				if av.T == nil || av.T == types.Typ[types.UntypedNil] {
					av = f.coerce(av, fn.Signature.Params().At(i).Type())
				}
				args = append(args, av.V)
			}
			return f.callPure(fn, nil, args, st)
		}
	}
	specErr("unknown function %q in contract", name)
	return TV{}
}

// callPure runs a Go function symbolically on a clone of the state and returns its (merged) result.
func (f *Frame) callPure(fn *ssa.Function, clo *Closure, args []Value, st *State) TV {
	x := f.x
	if lm := x.libModel(fn); lm != nil && clo == nil {
		x.curCallee = fn
		v, _ := lm.apply(f, st.clone(), nil, args)
		rt := fn.Signature.Results()
		if rt.Len() == 1 {
			return TV{v, rt.At(0).Type()}
		}
		return TV{v, rt}
	}
	if sp := x.specFor(fn); sp != nil && sp.Flags["pure"] && !sp.Flags["inline"] && clo == nil {
		rs := x.pureResults(st, fn, args)
		rt := fn.Signature.Results()
		if rt.Len() == 1 {
			return TV{rs[0], rt.At(0).Type()}
		}
		return TV{&Struct{Fields: rs}, rt}
	}
	s2 := st.clone()
	x.NoObl++
	defer func() { x.NoObl-- }()
	nf := x.newFrame(fn, nil)
	if clo != nil {
		nf.binds = clo.Binds
	}
	x.depth++
	res := nf.run(s2, args)
	x.depth--
	rt := fn.Signature.Results()
	if len(res.Results) < rt.Len() {
		// no feasible return under the current path condition (e.g. a nil receiver): the call
		// cannot be evaluated here and its value is irrelevant (anything follows from the
		// contradiction); use unconstrained values
		var rs []Value
		for i := 0; i < rt.Len(); i++ {
			rs = append(rs, x.freshValue("dead_"+fn.Name(), rt.At(i).Type()))
		}
		res.Results = rs
	}
	if rt.Len() == 1 {
		return TV{res.Results[0], rt.At(0).Type()}
	}
	return TV{&Struct{Fields: res.Results}, rt}
}

func (f *Frame) evalMethodCall(sel *spec.Sel, argsE []spec.Expr, st, old *State) TV {
	x := f.x
	// package-qualified function?
	if id, ok := sel.X.(*spec.Ident); ok {
		if _, isLocal := f.tryIdent(id.Name, st); !isLocal {
			if p := f.pkg(); p != nil {
				for _, imp := range p.Pkg.Imports() {
					if imp.Name() == id.Name || aliasMatches(f, id.Name, imp) {
						if sp := x.Prog.Package(imp); sp != nil {
							if fn := sp.Func(sel.Name); fn != nil {
								var args []Value
								for i, a := range argsE {
									av := f.eval(a, st, old)
									if av.T == nil {
										av = f.coerce(av, fn.Signature.Params().At(i).Type())
									}
									args = append(args, av.V)
								}
								if m := x.libModel(fn); m != nil {
									x.curCallee = fn
									v, _ := m.apply(f, st.clone(), nil, args)
									rt := fn.Signature.Results()
									if rt.Len() == 1 {
										return TV{v, rt.At(0).Type()}
									}
									return TV{v, rt}
								}
								return f.callPure(fn, nil, args, st)
							}
						}
					}
				}
			}
		}
	}
	recv := f.eval(sel.X, st, old)
	if recv.T == nil {
		specErr("method %s on untyped value", sel.Name)
	}
	if it, ok := recv.T.Underlying().(*types.Interface); ok {
		for i := 0; i < it.NumMethods(); i++ {
			m := it.Method(i)
			if m.Name() == sel.Name {
				if im := x.invokeModel(m.FullName()); im != nil {
					v := im(f, st, recv.V.(*Struct), nil)
					return TV{v, m.Type().(*types.Signature).Results().At(0).Type()}
				}
			}
		}
		specErr("interface method %s has no pure model", sel.Name)
	}
	// find method in the method set of T or *T
	for _, t := range []types.Type{recv.T, types.NewPointer(recv.T)} {
		ms := x.Prog.MethodSets.MethodSet(t)
		for i := 0; i < ms.Len(); i++ {
			m := ms.At(i)
			if m.Obj().Name() != sel.Name {
				continue
			}
			fn := x.Prog.MethodValue(m)
			if fn == nil {
				continue
			}
			rv := recv.V
			if t != recv.T {
				specErr("method %s needs an addressable receiver", sel.Name)
			}
			args := []Value{rv}
			for i, a := range argsE {
				av := f.eval(a, st, old)
				if av.T == nil {
					av = f.coerce(av, fn.Signature.Params().At(i).Type())
				}
				args = append(args, av.V)
			}
			if lm := x.libModel(fn); lm != nil {
				x.curCallee = fn
				v, _ := lm.apply(f, st.clone(), nil, args)
				rt := fn.Signature.Results()
				if rt.Len() == 1 {
					return TV{v, rt.At(0).Type()}
				}
				return TV{v, rt}
			}
			return f.callPure(fn, nil, args, st)
		}
	}
	specErr("type %s has no method %s", recv.T, sel.Name)
	return TV{}
}

// evalAddr evaluates an lvalue of the contract language.
func (f *Frame) evalAddr(e spec.Expr, st, old *State) (Value, types.Type) {
	x := f.x
	B := x.B
	switch e := e.(type) {
	case *spec.Ident:
		if d, ok := f.lookupName(e.Name); ok && d.addr {
			return f.val(d.v), d.v.Type().Underlying().(*types.Pointer).Elem()
		}
		if p := f.pkg(); p != nil {
			if g, ok := p.Members[e.Name].(*ssa.Global); ok {
				pt := g.Type().(*types.Pointer).Elem()
				return &Ptr{Glob: g, Key: "glob:" + g.Pkg.Pkg.Path() + "." + g.Name(), Type: pt}, pt
			}
		}
		specErr("%s is not addressable", e.Name)
	case *spec.Sel:
		xv := f.eval(e.X, st, old)
		pt, ok := xv.T.Underlying().(*types.Pointer)
		if !ok {
			// field of an addressable struct
			bp, bt := f.evalAddr(e.X, st, old)
			su := bt.Underlying().(*types.Struct)
			path := findField(su, e.Name)
			if len(path) != 1 {
				specErr("no direct field %s", e.Name)
			}
			return x.fieldAddr(bp, bt, path[0]), su.Field(path[0]).Type()
		}
		su, ok := pt.Elem().Underlying().(*types.Struct)
		if !ok {
			specErr("field %s of non-struct", e.Name)
		}
		path := findField(su, e.Name)
		if path == nil {
			specErr("no field %s in %s", e.Name, pt.Elem())
		}
		cur := xv.V
		curT := pt.Elem()
		for k, idx := range path {
			fld := curT.Underlying().(*types.Struct).Field(idx)
			p := x.fieldAddr(cur, curT, idx)
			if k == len(path)-1 {
				return p, fld.Type()
			}
			if pp, ok := fld.Type().Underlying().(*types.Pointer); ok {
				cur = x.load(st, p, fld.Type())
				curT = pp.Elem()
			} else {
				cur = p
				curT = fld.Type()
			}
		}
	case *spec.Index:
		xv := f.eval(e.X, st, old)
		iv := f.eval(e.I, st, old)
		switch t := xv.T.Underlying().(type) {
		case *types.Slice:
			arr, off, _, _ := sliceParts(xv.V)
			return &Ptr{Arr: arr, Idx: B.IndexAdd(off, f.asInt64(iv)), Off: off, Rel: f.asInt64(iv), Key: "[]" + typeKey(t.Elem()), Type: t.Elem()}, t.Elem()
		case *types.Pointer:
			if at, ok := t.Elem().Underlying().(*types.Array); ok {
				p := x.asPtr(xv.V, t.Elem())
				n := *p
				n.Type = at.Elem()
				n.Key = p.Key + "[]"
				n.SubIdx = f.asInt64(iv)
				return &n, at.Elem()
			}
		}
		// array field of an addressable struct
		bp, bt := f.evalAddr(e.X, st, old)
		if at, ok := bt.Underlying().(*types.Array); ok {
			p := x.asPtr(bp, bt)
			n := *p
			n.Type = at.Elem()
			if p.Ref != nil {
				n.Key = p.Key + "[]"
				n.SubIdx = f.asInt64(iv)
			} else {
				n.Path = append(append([]step{}, p.Path...), step{field: -1, index: f.asInt64(iv)})
			}
			return &n, at.Elem()
		}
	case *spec.Unary:
		if e.Op == "*" {
			xv := f.eval(e.X, st, old)
			pt := xv.T.Underlying().(*types.Pointer)
			return xv.V, pt.Elem()
		}
	}
	specErr("%s is not an lvalue", e)
	return nil, nil
}

var _ = constant.MakeBool
