package sym

import (
	"fmt"
	"runtime/debug"
	"sort"
	"strings"

	"golang.org/x/tools/go/ssa"

	"gowp/spec"
)

// VerifyLemma checks a code-free lemma of a contract file: for all values of its parameters,
// requires ==> ensures. Lemmas compose the postconditions of several functions into a statement
// about histories (e.g. one REPL round = run; compile; prepareEnv).
func (x *Exec) VerifyLemma(pkg *ssa.Package, sp *spec.FuncSpec) (rep *FuncReport) {
	name := strings.TrimPrefix(pkg.Pkg.Path(), modulePath+"/") + "." + sp.Name
	rep = &FuncReport{Func: name}
	start := len(x.Obls)
	defer func() {
		if r := recover(); r != nil {
			switch e := r.(type) {
			case Unsupported:
				rep.Error = e.Error()
			case SpecError:
				rep.Error = e.Error()
			default:
				rep.Error = fmt.Sprintf("engine fault: %v\n%s", r, debug.Stack())
			}
		}
		rep.Obligations = x.Obls[start:]
		for n := range x.Notes {
			rep.Notes = append(rep.Notes, n)
		}
		sort.Strings(rep.Notes)
	}()
	ctx := pkg.Func("init")
	if ctx == nil {
		specErr("package %s has no init function to give the lemma a scope", pkg.Pkg.Path())
	}
	x.prefix = name
	x.sig = ""
	f := x.newFrame(ctx, nil)
	f.top = true
	st := x.newState()
	for _, p := range sp.Results {
		fs := strings.Fields(p)
		t := f.typeByName(fs[1])
		if t == nil {
			specErr("lemma %s: unknown type %s", sp.Name, fs[1])
		}
		f.overTV[fs[0]] = TV{x.namedValue(fs[0], t), t}
	}
	f.entry = st
	for _, c := range sp.Of("requires") {
		st.PC = x.B.And(st.PC, f.evalBool(c.Expr, st, st))
	}
	if o := x.oblige("reach", "the hypotheses of the lemma are satisfiable", shortFile(sp.File), st, x.B.False()); o != nil {
		o.Expect = "sat"
	}
	for _, c := range sp.Of("ensures") {
		x.oblige("ensures", c.Text, fmt.Sprintf("%s:%d", shortFile(c.File), c.Line), st, f.evalBool(c.Expr, st, st))
	}
	return rep
}
