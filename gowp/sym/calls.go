package sym

import (
	"fmt"
	"go/types"
	"strings"

	"golang.org/x/tools/go/ssa"

	"gowp/smt"
	"gowp/spec"
)

const maxInlineDepth = 12

// call executes a call instruction; ok=false means the path ends (callee never returns).
func (f *Frame) call(st *State, ins ssa.Instruction, c *ssa.CallCommon) (Value, bool) {
	x := f.x
	if c.IsInvoke() {
		return f.invoke(st, ins, c), true
	}
	var args []Value
	for _, a := range c.Args {
		args = append(args, f.val(a))
	}
	if bi, ok := c.Value.(*ssa.Builtin); ok {
		return f.builtin(st, ins, bi, c, args)
	}
	fv := f.val(c.Value)
	return x.callValue(f, st, ins, fv, args, c.Signature())
}

func (x *Exec) callValue(f *Frame, st *State, ins ssa.Instruction, fv Value, args []Value, sig *types.Signature) (Value, bool) {
	switch fn := fv.(type) {
	case *FuncVal:
		return x.callStatic(f, st, ins, fn.Fn, nil, args)
	case *Closure:
		return x.callStatic(f, st, ins, fn.Fn, fn, args)
	case *smt.Term:
		if known, ok := x.idFn[fn]; ok {
			return x.callValue(f, st, ins, known, args, sig)
		}
		if fn.Op == "ite" {
			if s := x.simplifyUnder(st.PC, fn); s != fn {
				return x.callValue(f, st, ins, s, args, sig)
			}
			// dispatch over the alternatives
			sa := st.clone()
			sa.PC = x.B.And(st.PC, fn.Args[0])
			sb := st.clone()
			sb.PC = x.B.And(st.PC, x.B.Not(fn.Args[0]))
			va, oka := x.callValue(f, sa, ins, fn.Args[1], args, sig)
			vb, okb := x.callValue(f, sb, ins, fn.Args[2], args, sig)
			switch {
			case oka && okb:
				m := x.merge2(sa, sb)
				*st = *m
				return x.ite(sa.PC, va, vb), true
			case oka:
				*st = *sa
				return va, true
			case okb:
				*st = *sb
				return vb, true
			}
			return nil, false
		}
		// calling a nil function value panics
		if f != nil && f.wantSafety() && fn.S == RefS {
			nn := x.B.Neq(fn, x.B.IntC(0))
			x.oblige("safety-nilcall", "the function value called here is not nil", f.where(ins), st, nn)
			st.PC = x.B.And(st.PC, nn)
		}
		return x.opaqueCall(f, st, ins, fn, args, sig), true
	}
	unsupported("call of %T", fv)
	return nil, false
}

func specMentions(sp *spec.FuncSpec, what string) bool {
	for _, c := range sp.Clauses {
		if strings.Contains(c.Text, what) {
			return true
		}
	}
	return false
}

// resultValue packs results the way go/ssa does (single value or tuple).
func resultValue(rs []Value) Value {
	switch len(rs) {
	case 0:
		return &Struct{}
	case 1:
		return rs[0]
	}
	return &Struct{Fields: rs}
}

func (x *Exec) callStatic(f *Frame, st *State, ins ssa.Instruction, fn *ssa.Function, clo *Closure, args []Value) (Value, bool) {
	pcBefore := st.PC
	var preSt *State
	if f.top && clo == nil && x.OnTopReturn != nil {
		preSt = st.clone()
	}
	v, ok := x.callStatic1(f, st, ins, fn, clo, args)
	if ok && f.top && clo == nil {
		// ghost call history of the function under verification
		if f.callHist == nil {
			f.callHist = map[string]*callRec{}
		}
		rec := f.callHist[FuncName(fn)]
		if rec == nil {
			rec = &callRec{}
			f.callHist[FuncName(fn)] = rec
		}
		rec.n++
		rec.pc = pcBefore
		rec.fn = fn
		rec.args = args
		rec.pre = preSt
		rec.post = nil
		if f.spec != nil && specMentions(f.spec, "aftercall(") {
			rec.post = st.clone()
		}
		rec.results = nil
		rec.types = nil
		res := fn.Signature.Results()
		switch {
		case res.Len() == 1:
			rec.results = []Value{v}
			rec.types = []types.Type{res.At(0).Type()}
		case res.Len() > 1:
			if sv, isS := v.(*Struct); isS {
				for i := 0; i < res.Len() && i < len(sv.Fields); i++ {
					rec.results = append(rec.results, sv.Fields[i])
					rec.types = append(rec.types, res.At(i).Type())
				}
			}
		}
	}
	return v, ok
}

func (x *Exec) callStatic1(f *Frame, st *State, ins ssa.Instruction, fn *ssa.Function, clo *Closure, args []Value) (Value, bool) {
	if f.top && f.spec != nil {
		// call-site assertions of the function under verification ("before callee: expr")
		for _, c := range f.spec.Of("before") {
			if c.Name == FuncName(fn) {
				// arg0, arg1, ...: the arguments of this call (the receiver first)
				for i, a := range args {
					if i < len(fn.Params) {
						f.overTV[fmt.Sprintf("arg%d", i)] = TV{a, fn.Params[i].Type()}
					}
				}
				g := f.evalBool(c.Expr, st, f.entry)
				for i := range args {
					delete(f.overTV, fmt.Sprintf("arg%d", i))
				}
				x.oblige("before@"+FuncName(fn), c.Text, fmt.Sprintf("%s:%d", shortFile(c.File), c.Line), st, g)
				f.beforeSeen++
			}
		}
	}
	if m := x.libModel(fn); m != nil {
		x.curCallee = fn
		return m.apply(f, st, ins, args)
	}
	sp := x.specFor(fn)
	if sp != nil && sp.Flags["toplevel"] {
		// a contract that states a property of the function for well-formed inputs (a dispatch
		// never ends in a compile error, ...) is verified but not used, or demanded, at call sites
		sp = nil
	}
	if sp != nil && !sp.Flags["inline"] && clo == nil {
		return x.callByContract(f, st, ins, fn, sp, args)
	}
	if len(fn.Blocks) == 0 || (fn.Pkg != nil && !strings.HasPrefix(fn.Pkg.Pkg.Path(), modulePath) && sp == nil && clo == nil) {
		// external function without a library model: arbitrary effects
		x.note("uncontracted external callee treated as arbitrary: " + fn.String())
		return x.arbitraryCall(f, st, ins, fn, args), true
	}
	if sp == nil && clo == nil && !x.InlineAll && !x.smallEnough(fn) {
		x.note("uncontracted callee treated as arbitrary: " + fn.String())
		return x.arbitraryCall(f, st, ins, fn, args), true
	}
	if x.depth >= maxInlineDepth {
		unsupported("inline depth exceeded at %s", fn)
	}
	// recursion guard
	for fr := f; fr != nil; fr = fr.caller {
		if fr.fn == fn {
			x.note("recursive call treated as arbitrary: " + fn.String())
			return x.arbitraryCall(f, st, ins, fn, args), true
		}
	}
	nf := x.newFrame(fn, f)
	if clo != nil {
		nf.binds = clo.Binds
	}
	x.depth++
	var res *RunResult
	if sp == nil && clo == nil {
		// an uncontracted callee is inlined as a convenience: if its body is outside the supported
		// subset, fall back to "arbitrary effects" instead of giving up on the caller
		saved, nObl, nAss := st.clone(), len(x.Obls), len(x.assumes)
		failed := ""
		func() {
			defer func() {
				if r := recover(); r != nil {
					if u, ok := r.(Unsupported); ok {
						failed = u.Error()
						return
					}
					panic(r)
				}
			}()
			res = nf.run(st, args)
		}()
		if failed != "" {
			x.depth--
			*st = *saved
			x.Obls = x.Obls[:nObl]
			x.assumes = x.assumes[:nAss]
			x.note("uncontracted callee treated as arbitrary (body outside the supported subset): " + fn.String())
			return x.arbitraryCall(f, st, ins, fn, args), true
		}
	} else {
		res = nf.run(st, args)
	}
	x.depth--
	if res.Out.Dead || res.Out.PC.IsFalse() {
		return nil, false
	}
	*st = *res.Out
	return resultValue(res.Results), true
}

// smallEnough: loop-free functions of at most a few blocks are inlined when they have no contract
// (accessors such as Expr.Const, BindDescriptor.Class).
func (x *Exec) smallEnough(fn *ssa.Function) bool {
	if len(fn.Blocks) > 12 {
		return false
	}
	n := 0
	for _, b := range fn.Blocks {
		for _, s := range b.Succs {
			if s.Dominates(b) {
				return false
			}
		}
		n += len(b.Instrs)
	}
	return n <= 80
}

// arbitraryCall: unknown callee; everything reachable may change, result unconstrained.
func (x *Exec) arbitraryCall(f *Frame, st *State, ins ssa.Instruction, fn *ssa.Function, args []Value) Value {
	tok := x.B.Fresh("tok", RefS)
	for _, a := range args {
		x.shareValue(a)
	}
	x.havocAll(st, tok)
	if f.panicHook != nil {
		f.panicHook(st.clone(), "callee "+fn.Name()+" may panic", ins)
	}
	res := fn.Signature.Results()
	var rs []Value
	for i := 0; i < res.Len(); i++ {
		rs = append(rs, x.freshValue("ret_"+fn.Name(), res.At(i).Type()))
	}
	return resultValue(rs)
}

// opaqueCall models a call of a function value of unknown code (operand closures): result and
// successor heap are deterministic uninterpreted functions of (callee, arguments, heap token).
func (x *Exec) opaqueCall(f *Frame, st *State, ins ssa.Instruction, fn *smt.Term, args []Value, sig *types.Signature) Value {
	B := x.B
	tok := x.curToken(st)
	var flat []*smt.Term
	flat = append(flat, fn, tok)
	var tag []string
	for i, a := range args {
		ls := x.toLeaves(a, sig.Params().At(i).Type())
		for _, l := range ls {
			flat = append(flat, l)
			tag = append(tag, sortTag(l.S))
		}
	}
	key := strings.Join(tag, "_")
	ntok := B.UF("calltok_"+key, RefS, flat...)
	st.Trace = append(st.Trace, ntok)
	res := sig.Results()
	var rs []Value
	for i := 0; i < res.Len(); i++ {
		ls := flatten(res.At(i).Type())
		ts := make([]*smt.Term, len(ls))
		for j, l := range ls {
			ts[j] = B.UF(fmt.Sprintf("callres%d_%d_%s_%s", i, j, sortTag(l.Sort), key), l.Sort, flat...)
		}
		rs = append(rs, x.fromLeaves(res.At(i).Type(), &ts))
	}
	for _, a := range args {
		x.shareValue(a)
	}
	pre := st.clone()
	x.havocAll(st, ntok)
	if f != nil && f.panicHook != nil {
		f.panicHook(st.clone(), "operand call may panic", ins)
	}
	x.assumeFuncType(f, st, pre, ins, args, rs)
	return resultValue(rs)
}

// assumeFuncType: the callee is a value of a named function type with an assumed contract
// ("functype" in the contract file): its ensures clauses hold after the call returns.
func (x *Exec) assumeFuncType(f *Frame, st, pre *State, ins ssa.Instruction, args, rs []Value) {
	ci, ok := ins.(ssa.CallInstruction)
	if !ok || f == nil {
		return
	}
	named, ok := ci.Common().Value.Type().(*types.Named)
	if !ok || named.Obj().Pkg() == nil {
		return
	}
	db := x.Specs[named.Obj().Pkg().Path()]
	if db == nil {
		return
	}
	sp := db.Funcs["type:"+named.Obj().Name()]
	if sp == nil {
		return
	}
	pkg := x.Prog.Package(named.Obj().Pkg())
	if pkg == nil || pkg.Func("init") == nil {
		return
	}
	sig := named.Underlying().(*types.Signature)
	cf := x.newFrame(pkg.Func("init"), f)
	i := 0
	for _, pn := range strings.Split(sp.Attrs["params"], ",") {
		if pn != "" && i < len(args) {
			cf.overTV[pn] = TV{args[i], sig.Params().At(i).Type()}
			i++
		}
	}
	for j, rn := range sp.Results {
		if j < len(rs) {
			cf.overTV[rn] = TV{rs[j], sig.Results().At(j).Type()}
		}
	}
	x.note("assumed contract of function type " + named.Obj().Name() + ": " + sp.File)
	x.NoObl++
	for _, c := range sp.Of("ensures") {
		st.PC = x.B.And(st.PC, cf.evalBool(c.Expr, st, pre))
	}
	x.NoObl--
}

// curToken names the current heap version for opaque calls.
func (x *Exec) curToken(st *State) *smt.Term {
	if st.lazy.a == nil && len(st.heapWritten()) == 0 && len(st.lazy.havocs) == 0 {
		return st.lazy.base
	}
	// the heap was written since the last token: derive a token from the written contents so that
	// equal heaps give equal tokens on the implementation and on the specification side
	B := x.B
	var parts []*smt.Term
	parts = append(parts, x.lazyTok(st.lazy))
	for _, k := range st.heapWritten() {
		parts = append(parts, st.heap[k])
	}
	var tags []string
	for _, p := range parts[1:] {
		tags = append(tags, fmt.Sprint(p.S.String()))
	}
	name := "heaptok_" + fmt.Sprint(len(parts)) + "_" + hashStr(strings.Join(tags, ",")+strings.Join(st.heapWritten(), ","))
	return B.UF(name, RefS, parts...)
}

func (x *Exec) lazyTok(l *lazyHeap) *smt.Term {
	if l.a != nil {
		return x.B.Ite(l.cond, x.lazyTok(l.a), x.lazyTok(l.b))
	}
	if len(l.havocs) == 0 {
		return l.base
	}
	return x.B.UF(fmt.Sprintf("havoctok_%d", l.havocs[len(l.havocs)-1].id), RefS, l.base)
}

func hashStr(s string) string {
	h := uint64(1469598103934665603)
	for i := 0; i < len(s); i++ {
		h ^= uint64(s[i])
		h *= 1099511628211
	}
	return fmt.Sprintf("%x", h)
}

// heapWritten lists keys whose current content differs from the lazily derived content.
func (s *State) heapWritten() []string {
	var out []string
	for k, v := range s.heap {
		if v.Op == "uf" && strings.HasPrefix(v.Name, "H|") {
			continue
		}
		if v.Op == "var" && strings.HasPrefix(v.Name, "H|") {
			continue
		}
		if k == "$live" {
			continue
		}
		out = append(out, k)
	}
	sortStrings(out)
	return out
}

func sortStrings(s []string) {
	for i := 1; i < len(s); i++ {
		for j := i; j > 0 && s[j] < s[j-1]; j-- {
			s[j], s[j-1] = s[j-1], s[j]
		}
	}
}

// ---------- calls by contract

func (x *Exec) callByContract(f *Frame, st *State, ins ssa.Instruction, fn *ssa.Function, sp *spec.FuncSpec, args []Value) (Value, bool) {
	B := x.B
	cf := x.newFrame(fn, f)
	for i, p := range fn.Params {
		cf.regs[p] = args[i]
	}
	cf.entry = st.clone()
	pre := st.clone()
	where := "call"
	if ins != nil {
		where = f.where(ins)
	}
	for _, c := range sp.Of("requires") {
		g := cf.evalBool(c.Expr, st, pre)
		x.oblige("requires@"+FuncName(fn), c.Text, where, st, g)
	}
	if sp.Flags["noreturn"] {
		if f.panicHook != nil {
			f.panicHook(st.clone(), FuncName(fn)+" does not return", ins)
		}
		return nil, false
	}
	if f.panicHook != nil && !sp.Flags["never_panics"] {
		// the callee may panic after having performed any part of its effects
		ps := st.clone()
		x.applyModifies(cf, ps, sp, pre)
		for _, c := range sp.Of("on_panic") {
			ps.PC = B.And(ps.PC, cf.evalBool(c.Expr, ps, pre))
		}
		for _, c := range sp.Of("on_exit") {
			ps.PC = B.And(ps.PC, cf.evalBool(c.Expr, ps, pre))
		}
		f.panicHook(ps, FuncName(fn)+" may panic", ins)
	}
	x.applyModifies(cf, st, sp, pre)
	res := fn.Signature.Results()
	var rs []Value
	if sp.Flags["pure"] {
		// a pure function: its results are a deterministic function of its arguments and the heap
		rs = x.pureResults(st, fn, args)
	} else {
		for i := 0; i < res.Len(); i++ {
			name := fmt.Sprintf("ret%d_%s", i, fn.Name())
			rs = append(rs, x.freshValue(name, res.At(i).Type()))
		}
	}
	cf.bindResults(sp, rs)
	x.NoObl++
	for _, c := range sp.Of("ensures") {
		st.PC = B.And(st.PC, cf.evalBool(c.Expr, st, pre))
	}
	for _, c := range sp.Of("on_exit") {
		st.PC = B.And(st.PC, cf.evalBool(c.Expr, st, pre))
	}
	x.NoObl--
	for _, r := range rs {
		x.assumeWF(st, r)
	}
	if sp.Flags["trusted"] {
		x.note("trusted contract: " + FuncName(fn))
	}
	return resultValue(rs), true
}

// assumeWF adds representation invariants of a fresh value (slice lengths non-negative ...).
func (x *Exec) assumeWF(st *State, v Value) {
	if s, ok := v.(*Struct); ok {
		if len(s.Fields) == 4 {
			if a, ok := s.Fields[2].(*smt.Term); ok && a.S == I64 {
				if c, ok := s.Fields[3].(*smt.Term); ok && c.S == I64 {
					if o, ok := s.Fields[1].(*smt.Term); ok && o.S == I64 {
						if r, ok := s.Fields[0].(*smt.Term); ok && r.S == RefS {
							x.assumeSliceWF(o, a, c)
							return
						}
					}
				}
			}
		}
		for _, fl := range s.Fields {
			x.assumeWF(st, fl)
		}
	}
}

func (f *Frame) bindResults(sp *spec.FuncSpec, rs []Value) {
	if len(rs) == 1 {
		f.over["result"] = rs[0]
	}
	for i, r := range rs {
		f.over[fmt.Sprintf("result%d", i)] = r
	}
	res := f.fn.Signature.Results()
	for i := 0; i < res.Len() && i < len(rs); i++ {
		if n := res.At(i).Name(); n != "" && n != "_" {
			f.over[n] = rs[i]
		}
	}
	if sp != nil {
		for i, n := range sp.Results {
			if i < len(rs) {
				f.over[n] = rs[i]
			}
		}
	}
}

// applyModifies havocs what the callee's modifies clauses name (nothing if there is none).
func (x *Exec) applyModifies(cf *Frame, st *State, sp *spec.FuncSpec, pre *State) {
	for _, m := range sp.Of("modifies") {
		for _, e := range m.List {
			x.havocLvalue(cf, st, e, pre)
		}
	}
}

func (x *Exec) havocLvalue(cf *Frame, st *State, e spec.Expr, pre *State) {
	B := x.B
	if k := modKeyOf(e); k != "" {
		x.havocPrefix(st, k)
		return
	}
	if id, ok := e.(*spec.Ident); ok && id.Name == "everything" {
		x.havocAll(st, B.Fresh("tok", RefS))
		return
	}
	// x[*] : every element of the backing array of slice x
	if ix, ok := e.(*spec.Index); ok {
		if u, ok := ix.I.(*spec.Unary); ok && u.Op == "*" {
			_ = u
		}
		if id, ok := ix.I.(*spec.Ident); ok && id.Name == "_" {
			tv := cf.eval(ix.X, pre, pre)
			sl, ok := tv.T.Underlying().(*types.Slice)
			if !ok {
				unsupported("modifies %s: not a slice", e)
			}
			arr, _, _, _ := sliceParts(tv.V)
			for _, l := range flatten(sl.Elem()) {
				key := "[]" + typeKey(sl.Elem()) + l.Suffix
				as := smt.Array(RefS, smt.Array(I64, l.Sort))
				h := x.heapGet(st, key, as)
				x.heapSet(st, key, B.Store(h, arr, B.Fresh("elems", smt.Array(I64, l.Sort))))
			}
			return
		}
	}
	p, t := cf.evalAddr(e, pre, pre)
	x.store(st, p, t, x.freshValue("mod", t))
}

// ---------- interface method calls

func (f *Frame) invoke(st *State, ins ssa.Instruction, c *ssa.CallCommon) Value {
	x := f.x
	B := x.B
	recv := f.val(c.Value).(*Struct)
	var args []Value
	for _, a := range c.Args {
		args = append(args, f.val(a))
	}
	name := c.Method.FullName()
	if m := x.invokeModel(name); m != nil {
		return m(f, st, recv, args)
	}
	sig := c.Method.Type().(*types.Signature)
	if impls := x.closedImpls(c); impls != nil {
		return x.invokeClosed(f, st, ins, c, impls, recv, args)
	}
	if sp := x.ifaceSpecFor(c.Method); sp != nil {
		return x.invokeByContract(f, st, ins, c.Method, sp, recv, args)
	}
	x.note("interface method call modelled as opaque deterministic call: " + name)
	fn := B.UF("method_"+sanitize(name), RefS, recv.Fields[0].(*smt.Term))
	all := append([]Value{x.scalar(recv.Fields[1], nil)}, args...)
	// build a synthetic signature: receiver payload + params
	vars := []*types.Var{types.NewVar(0, nil, "recv", types.Typ[types.UnsafePointer])}
	for i := 0; i < sig.Params().Len(); i++ {
		vars = append(vars, sig.Params().At(i))
	}
	nsig := types.NewSignatureType(nil, nil, nil, types.NewTuple(vars...), sig.Results(), false)
	return x.opaqueCall(f, st, ins, fn, all, nsig)
}

// closedImpls: when the static interface type of an invoke is declared "closed" in its package's
// contract file, the concrete types of the module that implement it, with the method each one runs.
type implCase struct {
	typ types.Type // dynamic type (T or *T)
	fn  *ssa.Function
}

func (x *Exec) closedImpls(c *ssa.CallCommon) []implCase {
	n, ok := c.Value.Type().(*types.Named)
	if !ok || n.Obj().Pkg() == nil {
		return nil
	}
	db := x.Specs[n.Obj().Pkg().Path()]
	if db == nil || !x.usable(db) {
		return nil
	}
	closed := false
	for _, cn := range db.Closed {
		if cn == n.Obj().Name() {
			closed = true
		}
	}
	if !closed {
		return nil
	}
	key := n.Obj().Pkg().Path() + "." + n.Obj().Name() + "." + c.Method.Name()
	if x.implCache == nil {
		x.implCache = map[string][]implCase{}
	}
	if r, ok := x.implCache[key]; ok {
		return r
	}
	iface := n.Underlying().(*types.Interface)
	var out []implCase
	for _, pkg := range x.Prog.AllPackages() {
		if !strings.HasPrefix(pkg.Pkg.Path(), modulePath) {
			continue
		}
		names := make([]string, 0, len(pkg.Members))
		for name := range pkg.Members {
			names = append(names, name)
		}
		sortStrings(names)
		for _, name := range names {
			tm, ok := pkg.Members[name].(*ssa.Type)
			if !ok {
				continue
			}
			t := tm.Type()
			if _, isIface := t.Underlying().(*types.Interface); isIface {
				continue
			}
			if strings.Contains(name, "_github_com_") {
				// gomacro's generated proxies (x_package.go) let interpreted code implement a compiled
				// interface: outside the closed world, which is about the compiled implementations
				continue
			}
			for _, dt := range []types.Type{t, types.NewPointer(t)} {
				if !types.Implements(dt, iface) {
					continue
				}
				sel := x.Prog.MethodSets.MethodSet(dt).Lookup(c.Method.Pkg(), c.Method.Name())
				if sel == nil {
					continue
				}
				if fn := x.Prog.MethodValue(sel); fn != nil {
					out = append(out, implCase{dt, fn})
				}
				break // a value of type *T is not considered when T itself implements the interface
			}
		}
	}
	x.implCache[key] = out
	return out
}

// invokeClosed: a method call on a value of a closed interface type, resolved by case split over
// the implementing types: each case runs (inlines, or uses the contract of) the method of that type
// on a copy of the state; the copies are merged. A nil interface is a panic (checked).
func (x *Exec) invokeClosed(f *Frame, st *State, ins ssa.Instruction, c *ssa.CallCommon, impls []implCase, recv *Struct, args []Value) Value {
	B := x.B
	typ := recv.Fields[0].(*smt.Term)
	nonnil := B.Neq(typ, B.IntC(0))
	if f.panicHook != nil {
		ps := st.clone()
		ps.PC = B.And(st.PC, B.Not(nonnil))
		if !ps.PC.IsFalse() {
			f.panicHook(ps, "method call on a nil interface", ins)
		}
	}
	f.boundsCheck(st, ins, "nil-interface-call", nonnil)
	x.note("closed world: a value of " + c.Value.Type().String() + " has one of the types of the module that implement it")
	type outc struct {
		cond *smt.Term
		st   *State
		v    Value
	}
	var outs []outc
	for _, ic := range impls {
		cond := B.Eq(typ, x.typeID(ic.typ))
		if cond.IsFalse() {
			continue
		}
		sT := st.clone()
		sT.PC = B.And(st.PC, cond)
		if sT.PC.IsFalse() {
			continue
		}
		rv := x.unbox(recv.Fields[1], ic.typ)
		v, ok := x.callStatic(f, sT, ins, ic.fn, nil, append([]Value{rv}, args...))
		if !ok || sT.Dead || sT.PC.IsFalse() {
			continue
		}
		outs = append(outs, outc{cond, sT, v})
		if cond.IsTrue() {
			break
		}
	}
	if len(outs) == 0 {
		st.PC = B.False()
		st.Dead = true
		return x.zeroValue(c.Signature().Results().At(0).Type())
	}
	var sts []*State
	for _, o := range outs {
		sts = append(sts, o.st)
	}
	merged := x.mergeStates(sts)
	*st = *merged
	if c.Signature().Results().Len() == 0 {
		return &Struct{}
	}
	res := outs[len(outs)-1].v
	for i := len(outs) - 2; i >= 0; i-- {
		res = x.ite(outs[i].cond, outs[i].v, res)
	}
	return res
}

// ifaceSpecFor: the assumed contract of an interface method, written as func (I).m in the contract
// file of the package that declares the interface I.
func (x *Exec) ifaceSpecFor(m *types.Func) *spec.FuncSpec {
	sig := m.Type().(*types.Signature)
	if sig.Recv() == nil || m.Pkg() == nil {
		return nil
	}
	n, ok := sig.Recv().Type().(*types.Named)
	if !ok {
		return nil
	}
	db := x.Specs[m.Pkg().Path()]
	if db == nil || !x.usable(db) {
		return nil
	}
	return db.Funcs["("+n.Obj().Name()+")."+m.Name()]
}

// invokeByContract: a call of an interface method that has an assumed contract. The receiver must
// be a non-nil interface (checked); requires are obligations of the caller, ensures are assumed.
// In the clauses the result goes by the name given in the header, the receiver by "recv".
func (x *Exec) invokeByContract(f *Frame, st *State, ins ssa.Instruction, m *types.Func, sp *spec.FuncSpec, recv *Struct, args []Value) Value {
	B := x.B
	sig := m.Type().(*types.Signature)
	name := "(" + sig.Recv().Type().(*types.Named).Obj().Name() + ")." + m.Name()
	nonnil := B.Neq(recv.Fields[0].(*smt.Term), B.IntC(0))
	if f.panicHook != nil {
		ps := st.clone()
		ps.PC = B.And(st.PC, B.Not(nonnil))
		if !ps.PC.IsFalse() {
			f.panicHook(ps, "method call on a nil interface", ins)
		}
	}
	f.boundsCheck(st, ins, "nil-interface-call", nonnil)
	saved := map[string]TV{}
	had := map[string]bool{}
	bind := func(n string, tv TV) {
		if old, ok := f.overTV[n]; ok {
			saved[n], had[n] = old, true
		} else if _, seen := had[n]; !seen {
			had[n] = false
		}
		f.overTV[n] = tv
	}
	defer func() {
		for n, h := range had {
			if h {
				f.overTV[n] = saved[n]
			} else {
				delete(f.overTV, n)
			}
		}
	}()
	bind("recv", TV{recv, sig.Recv().Type()})
	for i := 0; i < sig.Params().Len() && i < len(args); i++ {
		if pn := sig.Params().At(i).Name(); pn != "" && pn != "_" {
			bind(pn, TV{args[i], sig.Params().At(i).Type()})
		}
	}
	pre := st.clone()
	for _, c := range sp.Of("requires") {
		x.oblige("requires@"+name, c.Text, f.where(ins), st, f.evalBool(c.Expr, st, pre))
	}
	if len(sp.Of("modifies")) > 0 {
		unsupported("modifies clause on the interface method contract %s", name)
	}
	if f.panicHook != nil && !sp.Flags["never_panics"] {
		f.panicHook(st.clone(), name+" may panic", ins)
	}
	var rs []Value
	for i := 0; i < sig.Results().Len(); i++ {
		r := x.freshValue(fmt.Sprintf("ret%d_%s", i, m.Name()), sig.Results().At(i).Type())
		rs = append(rs, r)
		if i < len(sp.Results) {
			bind(sp.Results[i], TV{r, sig.Results().At(i).Type()})
		}
	}
	x.NoObl++
	for _, c := range sp.Of("ensures") {
		st.PC = B.And(st.PC, f.evalBool(c.Expr, st, pre))
	}
	x.NoObl--
	for _, r := range rs {
		x.assumeWF(st, r)
	}
	x.note("trusted contract of an interface method: " + name)
	return resultValue(rs)
}

func sanitize(s string) string {
	r := strings.NewReplacer("/", "_", "[", "_", "]", "", "(", "", ")", "", " ", "", "+", "p", ".", "_", "=", "", ",", "_", ":", "", "*", "P", "{", "", "}", "", ";", "_")
	return r.Replace(s)
}

// ---------- builtins

func (f *Frame) builtin(st *State, ins ssa.Instruction, bi *ssa.Builtin, c *ssa.CallCommon, args []Value) (Value, bool) {
	x := f.x
	B := x.B
	switch bi.Name() {
	case "len":
		switch t := c.Args[0].Type().Underlying().(type) {
		case *types.Slice:
			_, _, ln, _ := sliceParts(args[0])
			return ln, true
		case *types.Basic:
			return x.strLen(args[0].(*smt.Term)), true
		case *types.Map:
			return x.mapLen(st, t, args[0].(*smt.Term)), true
		case *types.Array:
			return B.BVC(uint64(t.Len()), 64), true
		case *types.Pointer:
			return B.BVC(uint64(t.Elem().Underlying().(*types.Array).Len()), 64), true
		case *types.Chan:
			return B.UF("chanlen", I64, args[0].(*smt.Term)), true
		}
	case "cap":
		switch t := c.Args[0].Type().Underlying().(type) {
		case *types.Slice:
			_, _, _, cp := sliceParts(args[0])
			return cp, true
		case *types.Array:
			return B.BVC(uint64(t.Len()), 64), true
		}
	case "append":
		return f.appendOp(st, ins, c, args), true
	case "copy":
		return f.copyOp(st, ins, c, args), true
	case "delete":
		mt := c.Args[0].Type().Underlying().(*types.Map)
		x.mapDelete(st, mt, args[0].(*smt.Term), args[1])
		return &Struct{}, true
	case "panic":
		if f.panicHook != nil {
			f.panicHook(st.clone(), "panic", ins)
		} else {
			f.panics = append(f.panics, exitRec{st: st.clone(), where: f.where(ins), panicV: args[0], kind: "panic"})
		}
		return nil, false
	case "recover":
		return f.recoverOp(st), true
	case "real":
		return args[0].(*Struct).Fields[0], true
	case "imag":
		return args[0].(*Struct).Fields[1], true
	case "complex":
		return &Struct{[]Value{args[0], args[1]}}, true
	case "print", "println":
		return &Struct{}, true
	case "ssa:wrapnilchk":
		return args[0], true
	case "min", "max":
		if len(args) == 2 {
			t := c.Args[0].Type()
			lt := f.binop(st, ins, 40 /*token.LSS*/, args[0], args[1], t, t).(*smt.Term)
			if bi.Name() == "min" {
				return x.ite(lt, args[0], args[1]), true
			}
			return x.ite(lt, args[1], args[0]), true
		}
	}
	unsupported("builtin %s", bi.Name())
	return nil, false
}

// recoverOp is overridden by the defer machinery; outside a deferred call there is no panic.
func (f *Frame) recoverOp(st *State) Value {
	x := f.x
	for fr := f; fr != nil; fr = fr.caller {
		if fr.recovering != nil {
			v := fr.recovering.val
			fr.recovering.recovered = true
			return v
		}
	}
	return x.zeroValue(types.NewInterfaceType(nil, nil))
}

// appendOp: append(s, elems...) - when capacity suffices the backing array is shared, else a fresh
// array holds a copy; both cases are modelled (the choice follows cap exactly as in Go; the growth
// factor is left unspecified).
func (f *Frame) appendOp(st *State, ins ssa.Instruction, c *ssa.CallCommon, args []Value) Value {
	x := f.x
	B := x.B
	sl := c.Args[0].Type().Underlying().(*types.Slice)
	et := sl.Elem()
	if _, isStr := c.Args[1].Type().Underlying().(*types.Basic); isStr {
		x.note("append([]byte, string...): uninterpreted")
		return x.freshValue("append", c.Args[0].Type())
	}
	arr, off, ln, cp := sliceParts(args[0])
	earr, eoff, eln, _ := sliceParts(args[1])
	newLen := B.BVBin("bvadd", ln, eln)
	fits := B.BVCmp("bvsle", newLen, cp)
	// fresh array for the grow case
	narr := x.allocRef(st, "arr")
	ncap := B.Fresh("cap", I64)
	st.PC = B.And(st.PC, B.BVCmp("bvsle", newLen, ncap), B.BVCmp("bvsle", ncap, B.BVC(1<<40, 64)), B.BVCmp("bvsle", newLen, B.BVC(1<<40, 64)))
	rarr := B.Ite(fits, arr, narr)
	roff := B.Ite(fits, off, B.BVC(0, 64))
	rcap := B.Ite(fits, cp, ncap)
	for _, l := range flatten(et) {
		key := "[]" + typeKey(et) + l.Suffix
		inner := smt.Array(I64, l.Sort)
		as := smt.Array(RefS, inner)
		h := x.heapGet(st, key, as)
		src := B.Select(h, arr)
		esrc := B.Select(h, earr)
		// result contents: forall i in [0,len): r[roff+i] = src[off+i]; forall j in [0,eln): r[roff+len+j] = e[eoff+j]
		r := B.Fresh("appended", inner)
		i := B.BoundVar("ai", I64)
		zero := B.BVC(0, 64)
		_ = zero
		// absolute indices (the select on the result is the trigger)
		c1 := B.Forall([]*smt.Term{i}, B.Implies(B.And(B.BVCmp("bvsle", roff, i), B.BVCmp("bvslt", i, B.BVBin("bvadd", roff, ln))),
			B.Eq(B.Select(r, i), B.Select(src, B.BVBin("bvadd", B.BVBin("bvsub", i, roff), off)))))
		base2 := B.BVBin("bvadd", roff, ln)
		c2 := B.Forall([]*smt.Term{i}, B.Implies(B.And(B.BVCmp("bvsle", base2, i), B.BVCmp("bvslt", i, B.BVBin("bvadd", base2, eln))),
			B.Eq(B.Select(r, i), B.Select(esrc, B.BVBin("bvadd", B.BVBin("bvsub", i, base2), eoff)))))
		// when the array is shared, everything outside the appended window is unchanged
		c3 := B.Implies(fits, B.Forall([]*smt.Term{i}, B.Implies(B.Or(B.BVCmp("bvslt", i, B.BVBin("bvadd", off, ln)), B.BVCmp("bvsle", B.BVBin("bvadd", B.BVBin("bvadd", off, ln), eln), i)),
			B.Eq(B.Select(r, i), B.Select(src, i)))))
		st.PC = B.And(st.PC, c1, c2, c3)
		x.heapSet(st, key, B.Store(h, rarr, r))
	}
	return &Struct{[]Value{rarr, roff, newLen, rcap}}
}

// copyOp: copy(dst, src) with memmove semantics (overlap-safe).
func (f *Frame) copyOp(st *State, ins ssa.Instruction, c *ssa.CallCommon, args []Value) Value {
	x := f.x
	B := x.B
	sl := c.Args[0].Type().Underlying().(*types.Slice)
	et := sl.Elem()
	if _, isStr := c.Args[1].Type().Underlying().(*types.Basic); isStr {
		unsupported("copy from string")
	}
	darr, doff, dln, _ := sliceParts(args[0])
	sarr, soff, sln, _ := sliceParts(args[1])
	n := B.Ite(B.BVCmp("bvslt", dln, sln), dln, sln)
	for _, l := range flatten(et) {
		key := "[]" + typeKey(et) + l.Suffix
		inner := smt.Array(I64, l.Sort)
		as := smt.Array(RefS, inner)
		h := x.heapGet(st, key, as)
		src := B.Select(h, sarr)
		dst := B.Select(h, darr)
		r := B.Fresh("copied", inner)
		i := B.BoundVar("ci", I64)
		zero := B.BVC(0, 64)
		_ = zero
		c1 := B.Forall([]*smt.Term{i}, B.Implies(B.And(B.BVCmp("bvsle", doff, i), B.BVCmp("bvslt", i, B.BVBin("bvadd", doff, n))),
			B.Eq(B.Select(r, i), B.Select(src, B.BVBin("bvadd", B.BVBin("bvsub", i, doff), soff)))))
		c2 := B.Forall([]*smt.Term{i}, B.Implies(B.Or(B.BVCmp("bvslt", i, doff), B.BVCmp("bvsle", B.BVBin("bvadd", doff, n), i)),
			B.Eq(B.Select(r, i), B.Select(dst, i))))
		st.PC = B.And(st.PC, c1, c2)
		x.heapSet(st, key, B.Store(h, darr, r))
	}
	return n
}
