package sym

import (
	"fmt"
	"go/types"
	"os"
	"runtime/debug"
	"sort"
	"strings"

	"golang.org/x/tools/go/ssa"

	"gowp/smt"
	"gowp/spec"
)

// FuncReport summarises the verification-condition generation for one function.
type FuncReport struct {
	Aliases     int // alias returns checked (closure families)
	Func        string
	Obligations []*Obligation
	Error       string // unsupported construct / contract error: every obligation of the function is undischarged
	Returns     int
	PanicExits  int
	Closures    int
	Notes       []string
	Uncovered   []string // closures explicitly outside the contract ("closure partial")
}

func pkgShort(fn *ssa.Function) string {
	for fn.Parent() != nil {
		fn = fn.Parent()
	}
	if fn.Pkg == nil {
		return "?"
	}
	return strings.TrimPrefix(fn.Pkg.Pkg.Path(), modulePath+"/")
}

// QualName is the stable name of a function in reports: <pkg>.<Func>.
func QualName(fn *ssa.Function) string { return pkgShort(fn) + "." + FuncName(fn) }

// Verify dispatches on the contract: closure families or plain functions.
func (x *Exec) Verify(fn *ssa.Function) *FuncReport {
	x.RootPkg = ""
	if fn != nil {
		r := fn
		for r.Parent() != nil {
			r = r.Parent()
		}
		if r.Pkg != nil {
			x.RootPkg = r.Pkg.Pkg.Path()
		}
	}
	if sp := x.specFor(fn); sp != nil && isMethodTable(sp) {
		return x.VerifyMethodTable(fn)
	}
	if sp := x.specFor(fn); sp != nil && len(sp.Of("closure")) > 0 {
		return x.VerifyFamily(fn)
	}
	return x.VerifyFunc(fn)
}

// VerifyFunc generates every obligation of fn against its own contract.
func (x *Exec) VerifyFunc(fn *ssa.Function) (rep *FuncReport) {
	rep = &FuncReport{Func: QualName(fn)}
	start := len(x.Obls)
	defer func() {
		if r := recover(); r != nil {
			switch e := r.(type) {
			case Unsupported:
				rep.Error = e.Error()
			case SpecError:
				rep.Error = e.Error()
			default:
				rep.Error = fmt.Sprintf("engine fault: %v\n%s", r, debug.Stack())
			}
		}
		rep.Obligations = x.Obls[start:]
		for n := range x.Notes {
			rep.Notes = append(rep.Notes, n)
		}
		sort.Strings(rep.Notes)
	}()
	sp := x.specFor(fn)
	if sp == nil {
		rep.Error = "no contract for " + QualName(fn)
		return
	}
	x.prefix = QualName(fn)
	x.sig = ""
	f := x.newFrame(fn, nil)
	f.top = true
	f.pathMode = len(sp.Of("closure")) > 0
	st := x.newState()
	var args []Value
	for _, p := range fn.Params {
		v := x.namedValue(p.Name(), p.Type())
		x.assumeParamWF(st, v, p.Type())
		x.assumeIfaceTyped(v, p.Type())
		args = append(args, v)
		f.regs[p] = v
	}
	// a function literal under contract: its captured variables are cells with arbitrary contents.
	// They are not reachable by unknown code (lexical scoping: only the enclosing function and its
	// literals name them), so calls of unknown callees leave them alone.
	for _, fv := range fn.FreeVars {
		pt, ok := fv.Type().Underlying().(*types.Pointer)
		if !ok {
			unsupported("free variable %s captured by value", fv.Name())
		}
		x.cellN++
		c := &Cell{ID: x.cellN, Name: fv.Name(), Type: pt.Elem()}
		v := x.namedValue(fv.Name(), pt.Elem())
		x.assumeParamWF(st, v, pt.Elem())
		st.cells[c] = v
		f.binds = append(f.binds, &Ptr{Cell: c, Type: pt.Elem()})
	}
	f.entry = st
	for _, c := range sp.Of("requires") {
		st.PC = x.B.And(st.PC, f.evalBool(c.Expr, st, st))
	}
	if o := x.oblige("reach", "requires is satisfiable", shortFile(sp.File), st, x.B.False()); o != nil {
		o.Expect = "sat"
	}
	if len(sp.Of("on_exit"))+len(sp.Of("on_panic")) > 0 || sp.Flags["never_panics"] {
		f.panicHook = f.raise
	}
	res := f.run(st.clone(), args)
	rep.Returns = len(res.Rets)
	rep.PanicExits = len(res.Panics)
	entry := f.entry
	for _, c := range sp.Of("before") {
		if f.beforeSeen == 0 {
			// vacuity guard: the call the assertion talks about is no longer there
			x.oblige("before-reached", "a static call of "+c.Name+" is reached", fmt.Sprintf("%s:%d", shortFile(c.File), c.Line), st, x.B.False())
			break
		}
	}
	for i, r := range res.Rets {
		if r.st.PC.IsFalse() {
			continue
		}
		if x.OnTopReturn != nil {
			x.OnTopReturn(f, r)
		}
		x.sig = fmt.Sprintf("ret%d", i+1)
		if r.kind == "recovered" {
			x.sig = fmt.Sprintf("recovered%d", i+1)
		}
		f.over = map[string]Value{}
		f.bindResults(sp, r.results)
		f.cur, f.curIdx = nil, 0
		if os.Getenv("GOWP_EXITREACH") != "" && len(sp.Of("ensures")) > 0 {
			// audit aid (not part of any check): is this return reachable at all? A return whose
			// path condition is unsatisfiable discharges every postcondition vacuously
			if o := x.oblige("exit-reach", "this return is reachable", r.where, r.st, x.B.False()); o != nil {
				o.Expect = "sat"
			}
		}
		for _, c := range sp.Of("ensures") {
			g := f.evalBool(c.Expr, r.st, entry)
			x.oblige("ensures", c.Text, fmt.Sprintf("%s:%d (return at %s)", shortFile(c.File), c.Line, r.where), r.st, g)
		}
		for _, c := range sp.Of("on_exit") {
			g := f.evalBool(c.Expr, r.st, entry)
			x.oblige("on_exit", c.Text, fmt.Sprintf("%s:%d (return at %s)", shortFile(c.File), c.Line, r.where), r.st, g)
		}
		if !sp.Flags["opaque_effects"] && len(sp.Of("closure")) == 0 {
			x.frameCheck(f, sp, entry, r.st, r.where)
		}
	}
	if f.panicHook != nil {
		for i, p := range res.Panics {
			if p.st.PC.IsFalse() {
				continue
			}
			x.sig = fmt.Sprintf("panic%d", i+1)
			f.over = map[string]Value{}
			f.cur, f.curIdx = nil, 0
			for _, kind := range []string{"on_exit", "on_panic"} {
				for _, c := range sp.Of(kind) {
					g := f.evalBool(c.Expr, p.st, entry)
					x.oblige(kind, c.Text, fmt.Sprintf("%s:%d (panic exit: %s)", shortFile(c.File), c.Line, p.where), p.st, g)
				}
			}
		}
	}
	if sp.Flags["never_panics"] {
		for i, p := range res.Panics {
			x.sig = fmt.Sprintf("panic%d", i+1)
			x.oblige("never-panics", "explicit panic unreachable", p.where, p.st, x.B.False())
		}
	}
	x.sig = ""
	return
}

// assumeParamWF: representation invariants of inputs (slices well-formed, references nil or live).
func (x *Exec) assumeParamWF(st *State, v Value, t types.Type) {
	switch u := t.Underlying().(type) {
	case *types.Slice:
		_, off, ln, cp := sliceParts(v)
		x.assumeSliceWF(off, ln, cp)
		arr := v.(*Struct).Fields[0].(*smt.Term)
		x.assumeLive(st, arr)
		// a nil slice has length 0
		st.PC = x.B.And(st.PC, x.B.Implies(x.B.Eq(arr, x.B.IntC(0)), x.B.Eq(cp, x.B.BVC(0, 64))))
	case *types.Pointer, *types.Map, *types.Chan:
		x.assumeLive(st, v.(*smt.Term))
	case *types.Struct:
		if s, ok := v.(*Struct); ok {
			for i := 0; i < u.NumFields(); i++ {
				x.assumeParamWF(st, s.Fields[i], u.Field(i).Type())
			}
		}
	}
}

// frameCheck: every heap location that differs between entry and exit must be named by a
// modifies clause (objects allocated by the function itself are exempt).
func (x *Exec) frameCheck(f *Frame, sp *spec.FuncSpec, entry, final *State, where string) {
	B := x.B
	type allow struct {
		ref, idx *smt.Term
		whole    bool // whole backing array
	}
	allowed := map[string][]allow{}
	var prefixes []string
	everything := false
	for _, m := range sp.Of("modifies") {
		for _, e := range m.List {
			if k := modKeyOf(e); k != "" {
				prefixes = append(prefixes, k)
				continue
			}
			if id, ok := e.(*spec.Ident); ok && id.Name == "everything" {
				everything = true
				continue
			}
			if ix, ok := e.(*spec.Index); ok {
				if id, ok := ix.I.(*spec.Ident); ok && id.Name == "_" {
					tv := f.eval(ix.X, entry, entry)
					sl := tv.T.Underlying().(*types.Slice)
					arr, _, _, _ := sliceParts(tv.V)
					for _, l := range flatten(sl.Elem()) {
						k := "[]" + typeKey(sl.Elem()) + l.Suffix
						allowed[k] = append(allowed[k], allow{ref: arr, whole: true})
					}
					continue
				}
			}
			pv, t := f.evalAddr(e, entry, entry)
			p := x.asPtr(pv, t)
			for _, l := range flatten(t) {
				k := p.Key + l.Suffix
				switch {
				case p.Ref != nil:
					allowed[k] = append(allowed[k], allow{ref: p.Ref, idx: p.SubIdx})
				case p.Arr != nil:
					allowed[k] = append(allowed[k], allow{ref: p.Arr, idx: p.Idx})
				case p.Glob != nil:
					allowed[k] = append(allowed[k], allow{whole: true})
				}
			}
		}
	}
	if everything {
		return
	}
	live0 := x.heapGet(entry, "$live", smt.Array(RefS, smt.Bool))
	var keys []string
	for k := range final.heap {
		keys = append(keys, k)
	}
	sort.Strings(keys)
	for _, k := range keys {
		if k == "$live" {
			continue
		}
		skip := false
		for _, p := range prefixes {
			if strings.HasPrefix(k, p) {
				skip = true
			}
		}
		if skip {
			continue
		}
		fin := final.heap[k]
		init := x.heapGet(entry, k, fin.S)
		if fin == init {
			continue
		}
		var goal *smt.Term
		if fin.S.K != smt.KArray || fin.S.Idx != RefS {
			// global variable
			if len(allowed[k]) > 0 {
				continue
			}
			goal = B.Eq(fin, init)
		} else {
			r := B.BoundVar("fr", RefS)
			conds := []*smt.Term{B.Select(live0, r)}
			var idxAllows []allow
			for _, a := range allowed[k] {
				if a.whole || a.idx == nil {
					conds = append(conds, B.Neq(r, a.ref))
				} else {
					idxAllows = append(idxAllows, a)
				}
			}
			if len(idxAllows) == 0 {
				goal = B.Forall([]*smt.Term{r}, B.Implies(B.And(conds...), B.Eq(B.Select(fin, r), B.Select(init, r))))
			} else {
				i := B.BoundVar("fi", I64)
				for _, a := range idxAllows {
					conds = append(conds, B.Not(B.And(B.Eq(r, a.ref), B.Eq(i, a.idx))))
				}
				goal = B.Forall([]*smt.Term{r, i}, B.Implies(B.And(conds...), B.Eq(B.Select(B.Select(fin, r), i), B.Select(B.Select(init, r), i))))
			}
		}
		x.oblige("frame", "only the locations named by modifies change: "+k, where, final, goal)
	}
	// a path that performed an effect of unknown extent cannot satisfy any frame
	if !sameLazyRoot(entry.lazy, final.lazy) {
		x.oblige("frame", "no effect of unknown extent (uncontracted or opaque call)", where, final, B.False())
	}
}

func sameLazyRoot(a, b *lazyHeap) bool {
	if b.a != nil {
		return sameLazyRoot(a, b.a) && sameLazyRoot(a, b.b)
	}
	if a.a != nil {
		return false
	}
	return a.base == b.base
}
