package sym

import "gowp/smt"

// relevantHyps keeps the hypotheses connected to the goal and path condition through shared
// symbols (variables and uninterpreted functions), transitively. Dropping a hypothesis can only make
// an obligation harder to prove, never unsound; it keeps the queries small (the global assumption
// list also holds facts about string constants, unrelated closures' cells, ...).
func relevantHyps(o *Obligation) []*smt.Term {
	if len(o.Hyps) == 0 {
		return nil
	}
	syms := func(t *smt.Term) map[string]bool {
		out := map[string]bool{}
		seen := map[int]bool{}
		var walk func(t *smt.Term)
		walk = func(t *smt.Term) {
			if seen[t.ID] {
				return
			}
			seen[t.ID] = true
			switch t.Op {
			case "var":
				out["v:"+t.Name] = true
			case "uf":
				// heap arrays H|key(tok) are identified with their token argument as well
				out["f:"+t.Name] = true
			}
			for _, a := range t.Args {
				walk(a)
			}
		}
		walk(t)
		return out
	}
	want := syms(o.PC)
	if o.Goal != nil {
		for k := range syms(o.Goal) {
			want[k] = true
		}
	}
	hs := make([]map[string]bool, len(o.Hyps))
	for i, h := range o.Hyps {
		hs[i] = syms(h)
	}
	used := make([]bool, len(o.Hyps))
	// an obligation that does not mention floating point gains nothing from floating-point facts
	// (and the solvers lose seconds bit-blasting them)
	fpFree := !hasFP(o.PC) && (o.Goal == nil || !hasFP(o.Goal))
	if fpFree {
		for i, h := range o.Hyps {
			if hasFP(h) {
				hs[i] = map[string]bool{"!never": true}
			}
		}
	}
	changed := true
	for changed {
		changed = false
		for i := range o.Hyps {
			if used[i] {
				continue
			}
			hit := len(hs[i]) == 0
			for k := range hs[i] {
				if want[k] {
					hit = true
					break
				}
			}
			if hit {
				used[i] = true
				changed = true
				for k := range hs[i] {
					want[k] = true
				}
			}
		}
	}
	var out []*smt.Term
	for i, h := range o.Hyps {
		if used[i] {
			out = append(out, h)
		}
	}
	return out
}

func hasFP(t *smt.Term) bool {
	seen := map[int]bool{}
	var walk func(t *smt.Term) bool
	walk = func(t *smt.Term) bool {
		if seen[t.ID] {
			return false
		}
		seen[t.ID] = true
		if t.S.K == smt.KFP {
			return true
		}
		for _, a := range t.Args {
			if walk(a) {
				return true
			}
		}
		return false
	}
	return walk(t)
}

// goalDirected selects, among the hypotheses and the conjuncts of the path condition, those
// connected to the goal through shared symbols (heap tokens excluded: every heap read shares them),
// transitively; floating-point facts are dropped for goals without floating point.
func goalDirected(o *Obligation) []*smt.Term {
	syms := func(t *smt.Term) map[string]bool {
		out := map[string]bool{}
		seen := map[int]bool{}
		var walk func(t *smt.Term)
		walk = func(t *smt.Term) {
			if seen[t.ID] {
				return
			}
			seen[t.ID] = true
			switch t.Op {
			case "var":
				if !(len(t.Name) >= 3 && (t.Name[:3] == "tok" || (len(t.Name) >= 4 && t.Name[:4] == "rtok"))) {
					out["v:"+t.Name] = true
				}
			case "uf":
				if !(len(t.Name) >= 2 && t.Name[:2] == "H!") {
					out["f:"+t.Name] = true
				}
			}
			for _, a := range t.Args {
				walk(a)
			}
		}
		walk(t)
		return out
	}
	var cands []*smt.Term
	cands = append(cands, o.Hyps...)
	cands = append(cands, conjuncts(o.PC)...)
	want := map[string]bool{}
	fpFree := true
	if o.Goal != nil {
		want = syms(o.Goal)
		fpFree = !hasFP(o.Goal)
	}
	if len(want) == 0 {
		// a goal without symbols (e.g. "this path is infeasible"): everything may matter
		return append(relevantHyps(o), o.PC)
	}
	cs := make([]map[string]bool, len(cands))
	for i, c := range cands {
		if fpFree && hasFP(c) {
			cs[i] = map[string]bool{"!never": true}
			continue
		}
		cs[i] = syms(c)
	}
	used := make([]bool, len(cands))
	for changed := true; changed; {
		changed = false
		for i := range cands {
			if used[i] {
				continue
			}
			hit := len(cs[i]) == 0
			for k := range cs[i] {
				if want[k] {
					hit = true
					break
				}
			}
			if hit {
				used[i] = true
				changed = true
				for k := range cs[i] {
					want[k] = true
				}
			}
		}
	}
	var out []*smt.Term
	for i, c := range cands {
		if used[i] {
			out = append(out, c)
		}
	}
	return out
}
