package sym

// neverErrors: the function under verification promises that no Errorf call is reachable.
func (f *Frame) neverErrors() bool {
	for fr := f; fr != nil; fr = fr.caller {
		if fr.top {
			return fr.spec != nil && fr.spec.Flags["never_errors"]
		}
	}
	return false
}
