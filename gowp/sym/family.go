package sym

import (
	"fmt"
	"go/types"
	"os"
	"runtime/debug"
	"sort"
	"strings"

	"golang.org/x/tools/go/ssa"

	"gowp/smt"
	"gowp/spec"
)

// Closure families. gomacro compiles every syntactic form to one of many pre-written closures,
// selected by operand kind, constness, variable depth and storage class. A family contract is
// attached to the compile function and quantifies over its result:
//
//	//@ func (*Comp).Add(node, xe, ye) ret
//	//@   closure expr operand(xe) + operand(ye)
//
// "every closure this function creates, when run on any environment, returns operand(xe)+operand(ye)
// in the kind selected on that path, calls the operand closures exactly in that order and changes
// nothing else". Each MakeClosure site is one verification unit named after its path signature.

type closureSite struct {
	frame *Frame
	st    *State
	mc    *ssa.MakeClosure
	clo   *Closure
}

// famEnv is the context ghost functions of closure contracts run in.
type famEnv struct {
	x      *Exec
	parent *Frame // frame of the compile function (values at closure creation)
	create *State // state at closure creation
	env    *smt.Term
	facts  map[int]bool // truth of atoms decided by the creation path condition
	pins   map[int]*smt.Term
	notes  []string
	// evaluation of statement schemas
	memo         map[string]TV
	collect      bool
	rhsFirst     bool
	sawCall      bool
	pendingCalls []string
}

// VerifyFamily checks the function's own contract and every closure it creates.
func (x *Exec) VerifyFamily(fn *ssa.Function) (rep *FuncReport) {
	var sites []*closureSite
	x.OnMakeClosure = func(f *Frame, st *State, mc *ssa.MakeClosure, c *Closure) {
		if f.fn == fn && f.top {
			// snapshot of the frame: in path mode registers are overwritten by later paths
			fc := *f
			fc.regs = make(map[ssa.Value]Value, len(f.regs))
			for k, v := range f.regs {
				fc.regs[k] = v
			}
			fc.over = map[string]Value{}
			fc.overTV = map[string]TV{}
			sites = append(sites, &closureSite{frame: &fc, st: st.clone(), mc: mc, clo: c})
		}
	}
	rep = x.VerifyFunc(fn)
	x.OnMakeClosure = nil
	if rep.Error != "" {
		return rep
	}
	sp := x.specFor(fn)
	start := len(x.Obls)
	defer func() {
		if r := recover(); r != nil {
			switch e := r.(type) {
			case Unsupported:
				rep.Error = e.Error()
			case SpecError:
				rep.Error = e.Error()
			default:
				rep.Error = fmt.Sprintf("engine fault: %v\n%s", r, debug.Stack())
			}
			if os.Getenv("GOWP_DEBUG") != "" {
				rep.Error += "\n" + string(debug.Stack())
			}
		}
		rep.Obligations = append(rep.Obligations, x.Obls[start:]...)
		rep.Closures = len(sites)
		rep.Notes = rep.Notes[:0]
		for n := range x.Notes {
			rep.Notes = append(rep.Notes, n)
		}
		sort.Strings(rep.Notes)
	}()
	seen := map[string]int{}
	for _, s := range sites {
		sig := x.pathSignature(s)
		seen[sig]++
		if seen[sig] > 1 {
			sig = fmt.Sprintf("%s;#%d", sig, seen[sig])
		}
		x.checkClosure(sp, s, sig)
	}
	// every FuncLit of the function must have been reached (no closure silently unmatched)
	nlit := len(fn.AnonFuncs)
	distinct := map[*ssa.Function]bool{}
	for _, s := range sites {
		distinct[s.clo.Fn] = true
	}
	if nlit != len(distinct) {
		x.prefix = QualName(fn)
		x.sig = ""
		st := x.newState()
		o := x.oblige("closures-reached", fmt.Sprintf("%d function literals in the source, %d of them reached by the analysis", nlit, len(distinct)), QualName(fn), st, x.B.False())
		_ = o
	}
	return rep
}

// pathSignature names a closure by the values of the named locals its creation path pins.
func (x *Exec) pathSignature(s *closureSite) string {
	f := s.frame
	names := map[int]string{}
	for n, defs := range f.names {
		for _, d := range defs {
			if v, ok := f.regs[d.v]; ok && !d.addr {
				if t, ok := v.(*smt.Term); ok {
					if _, dup := names[t.ID]; !dup || len(n) < len(names[t.ID]) {
						names[t.ID] = n
					}
				}
			}
		}
	}
	var parts []string
	for _, c := range conjuncts(s.st.PC) {
		neg := false
		a := c
		if a.Op == "not" {
			neg = true
			a = a.Args[0]
		}
		if a.Op == "=" && len(a.Args) == 2 {
			l, r := a.Args[0], a.Args[1]
			if l.IsConst() {
				l, r = r, l
			}
			if n, ok := names[l.ID]; ok && r.IsConst() && !neg {
				val := fmt.Sprint(r.SignedVal())
				if n == "k" || strings.HasSuffix(n, "kind") || n == "kr" {
					if kn, ok := kindNames[r.Val]; ok {
						val = kn
					}
				}
				parts = append(parts, n+"="+val)
				continue
			}
			if n, ok := names[l.ID]; ok && !neg {
				if n2, ok2 := names[r.ID]; ok2 {
					parts = append(parts, n+"="+n2)
				}
			}
			continue
		}
		if n, ok := names[a.ID]; ok && a.S == smt.Bool {
			if neg {
				parts = append(parts, "!"+n)
			} else {
				parts = append(parts, n)
			}
		}
	}
	if len(parts) == 0 {
		return s.clo.Fn.Name()
	}
	return strings.Join(parts, ",")
}

// propagate decides atoms from the conjuncts of a path condition (unit propagation over
// boolean equalities), enough to tell whether an operand is constant on this path.
func propagate(pc *smt.Term) (map[int]bool, map[int]*smt.Term) {
	facts := map[int]bool{}
	pins := map[int]*smt.Term{}
	cs := conjuncts(pc)
	for round := 0; round < 4; round++ {
		for _, c := range cs {
			neg := false
			a := c
			if a.Op == "not" {
				neg = true
				a = a.Args[0]
			}
			if a.Op == "=" && len(a.Args) == 2 && a.Args[0].S == smt.Bool {
				l, r := a.Args[0], a.Args[1]
				lv, lok := facts[l.ID]
				rv, rok := facts[r.ID]
				// (l == r) holds (neg false) or fails (neg true)
				if lok && !rok {
					facts[r.ID] = lv != neg
				}
				if rok && !lok {
					facts[l.ID] = rv != neg
				}
				continue
			}
			if a.Op == "=" && len(a.Args) == 2 && !neg {
				l, r := a.Args[0], a.Args[1]
				if r.IsConst() {
					if old, ok := pins[l.ID]; ok && old != r {
						facts[-1] = true // the path condition is contradictory
					}
					pins[l.ID] = r
				} else if l.IsConst() {
					if old, ok := pins[r.ID]; ok && old != l {
						facts[-1] = true
					}
					pins[r.ID] = l
				} else if c, ok := pins[l.ID]; ok {
					pins[r.ID] = c
				} else if c, ok := pins[r.ID]; ok {
					pins[l.ID] = c
				}
			}
			facts[a.ID] = !neg
		}
	}
	return facts, pins
}

func (fe *famEnv) truth(t *smt.Term) (bool, bool) {
	if t.IsTrue() {
		return true, true
	}
	if t.IsFalse() {
		return false, true
	}
	if t.Op == "not" {
		v, ok := fe.truth(t.Args[0])
		return !v, ok
	}
	v, ok := fe.facts[t.ID]
	return v, ok
}

func (fe *famEnv) pinned(t *smt.Term) (*smt.Term, bool) {
	if t.IsConst() {
		return t, true
	}
	c, ok := fe.pins[t.ID]
	return c, ok
}

// checkClosure verifies one closure against the closure clauses of the compile function.
func (x *Exec) checkClosure(sp *spec.FuncSpec, s *closureSite, sig string) {
	B := x.B
	x.prefix = QualName(s.frame.fn)
	x.sig = sig
	var exprC, stmtC *spec.Clause
	var reqs, invs []*spec.Clause
	for _, c := range sp.Of("closure") {
		w := strings.Fields(c.Text)
		if len(w) == 0 {
			continue
		}
		switch w[0] {
		case "expr":
			exprC = c
		case "stmt":
			stmtC = c
		case "requires":
			reqs = append(reqs, c)
		case "loop":
			invs = append(invs, c)
		}
	}
	if exprC == nil && stmtC == nil {
		specErr("%s creates closures but its contract has no 'closure expr' or 'closure stmt' clause", QualName(s.frame.fn))
	}
	clo := s.clo
	fn := clo.Fn
	// run-time state: arbitrary heap, captured cells as they were when the closure was created
	x.famN++
	run := x.newState()
	run.lazy = &lazyHeap{base: B.Var(fmt.Sprintf("rtok%d", x.famN), RefS)}
	for c, v := range s.st.cells {
		run.cells[c] = v
	}
	run.PC = s.st.PC
	facts, pins := propagate(s.st.PC)
	if facts[-1] {
		// infeasible path (a value pinned to two different constants): nothing to prove
		return
	}
	fe := &famEnv{x: x, parent: s.frame, create: s.st, facts: facts, pins: pins, memo: map[string]TV{}}
	// parameters
	nf := x.newFrame(fn, nil)
	nf.outer = s.frame
	nf.top = true
	nf.binds = clo.Binds
	var args []Value
	for _, p := range fn.Params {
		v := x.namedValue(p.Name(), p.Type())
		args = append(args, v)
		nf.regs[p] = v
		if t, ok := v.(*smt.Term); ok && t.S == RefS {
			run.PC = B.And(run.PC, B.Neq(t, B.IntC(0)))
			if fe.env == nil {
				fe.env = t
			}
		}
	}
	x.fam = fe
	defer func() { x.fam = nil }()
	// closure-level loop invariants: "loop N invariant e" inside closure clauses
	for _, c := range invs {
		w := strings.Fields(c.Text)
		if len(w) < 4 {
			specErr("closure loop N invariant|decreases expr")
		}
		var n int
		fmt.Sscanf(w[1], "%d", &n)
		kind := w[2]
		idx := strings.Index(c.Text, kind)
		e, err := spec.ParseExpr(strings.TrimSpace(c.Text[idx+len(kind):]))
		if err != nil {
			specErr("%v", err)
		}
		for _, li := range nf.loops {
			if li.ordinal == n {
				cl := &spec.Clause{Kind: kind, Loop: n, Expr: e, Text: c.Text, File: c.File, Line: c.Line}
				if kind == "invariant" {
					li.inv = append(li.inv, cl)
				} else {
					li.dec = append(li.dec, cl)
				}
			}
		}
	}
	nf.entry = run
	for _, c := range reqs {
		e, err := spec.ParseExpr(strings.TrimSpace(strings.TrimPrefix(strings.TrimSpace(c.Text), "requires")))
		if err != nil {
			specErr("%v", err)
		}
		run.PC = B.And(run.PC, nf.evalBool(e, run, s.st))
	}
	// 1. the specification, executed on a copy of the initial state
	specSt := run.clone()
	specFrame := x.newFrame(fn, nil)
	specFrame.outer = s.frame
	for i, p := range fn.Params {
		specFrame.regs[p] = args[i]
	}
	specFrame.binds = clo.Binds
	specFrame.entry = run
	var specRes []Value
	var alt *specAlt
	x.NoObl++
	if exprC != nil {
		e, err := spec.ParseExpr(strings.TrimSpace(strings.TrimPrefix(strings.TrimSpace(exprC.Text), "expr")))
		if err != nil {
			x.NoObl--
			specErr("%v", err)
		}
		tv := specFrame.eval(e, specSt, s.st)
		specRes = []Value{tv.V}
		// result type must be the Go type of the kind selected on this path
		rt := fn.Signature.Results()
		if rt.Len() != 1 || (tv.T != nil && !types.Identical(rt.At(0).Type().Underlying(), tv.T.Underlying())) {
			x.NoObl--
			x.oblige("closure-type", fmt.Sprintf("closure returns %s, the contract value has type %s", rt, tv.T), x.where(fn), run, B.False())
			return
		}
	} else {
		alt = x.evalStmtSpec(specFrame, fe, stmtC, specSt, s.st)
		specRes = alt.results
	}
	x.NoObl--
	// 2. the closure itself
	res := nf.run(run.clone(), args)
	if len(res.Rets) == 0 {
		x.oblige("closure-returns", "the closure has a normal return", x.where(fn), run, B.False())
		return
	}
	clauseText := ""
	if exprC != nil {
		clauseText = exprC.Text
	} else {
		clauseText = stmtC.Text
	}
	where := x.where(fn)
	for i, r := range res.Rets {
		if r.st.PC.IsFalse() {
			continue
		}
		if len(res.Rets) > 1 {
			x.sig = fmt.Sprintf("%s;ret%d", sig, i+1)
		}
		var goal *smt.Term
		if alt != nil && alt.second != nil {
			goal = B.Or(x.sameOutcome(r, alt.results, alt.first), x.sameOutcome(r, alt.results2, alt.second))
		} else {
			goal = x.sameOutcome(r, specRes, specSt)
		}
		goal = x.simplifyUnder(r.st.PC, goal)
		x.oblige("closure", clauseText, where, r.st, goal)
	}
	x.sig = sig
	// panics of the closure must be panics of the specification: the spec evaluation has no panic
	// paths other than those of the Go operators it uses, which the closure shares when it computes
	// the same terms; explicit panics inside closures are reported
	for _, p := range res.Panics {
		x.oblige("closure-no-extra-panic", "explicit panic in a closure body", p.where, p.st, B.False())
	}
}

func (x *Exec) where(fn *ssa.Function) string {
	p := x.Prog.Fset.Position(fn.Pos())
	return fmt.Sprintf("%s:%d", strings.TrimPrefix(p.Filename, "/repo/"), p.Line)
}

// sameOutcome: results equal and every heap key equal (extensionally) between the closure's final
// state and the specification's final state.
func (x *Exec) sameOutcome(r exitRec, specRes []Value, specSt *State) *smt.Term {
	B := x.B
	var cs []*smt.Term
	if len(r.results) != len(specRes) {
		return B.False()
	}
	for i := range specRes {
		cs = append(cs, x.eqLoose(r.results[i], specRes[i]))
	}
	keys := map[string]*smt.Sort{}
	for k, v := range r.st.heap {
		keys[k] = v.S
	}
	for k, v := range specSt.heap {
		keys[k] = v.S
	}
	var ks []string
	for k := range keys {
		ks = append(ks, k)
	}
	sort.Strings(ks)
	for _, k := range ks {
		if k == "$live" {
			continue
		}
		a := x.heapGet(r.st, k, keys[k])
		b := x.heapGet(specSt, k, keys[k])
		cs = append(cs, B.Eq(a, b))
	}
	// same sequence of operand calls
	if !sameLazyShape(r.st.lazy, specSt.lazy) {
		cs = append(cs, x.lazyEq(r.st.lazy, specSt.lazy))
	}
	return B.And(cs...)
}

func sameLazyShape(a, b *lazyHeap) bool { return sameLazy(a, b) }

func (x *Exec) lazyEq(a, b *lazyHeap) *smt.Term {
	return x.B.Eq(x.lazyTok(a), x.lazyTok(b))
}

// eqLoose compares values structurally; Go-level pointers by location.
func (x *Exec) eqLoose(a, b Value) *smt.Term {
	defer func() {
		if r := recover(); r != nil {
			if _, ok := r.(Unsupported); !ok {
				panic(r)
			}
			panic(Unsupported{"closure result and contract value have different shapes"})
		}
	}()
	return x.eqValue(a, b)
}

type specAlt struct {
	results  []Value
	first    *State
	results2 []Value
	second   *State
}

// evalStmtSpec interprets a statement schema:
//
//	stmt LHS = RHS        (or LHS op= RHS written as LHS = LHS op RHS)
//
// followed by the trampoline contract: env.IP advances by one and the closure returns
// (env.Code[env.IP], env). Go does not order the load of LHS relative to calls in RHS, so both
// orders are computed and either is accepted.
func (x *Exec) evalStmtSpec(f *Frame, fe *famEnv, c *spec.Clause, st, create *State) *specAlt {
	text := strings.TrimSpace(strings.TrimPrefix(strings.TrimSpace(c.Text), "stmt"))
	eq := topLevelAssign(text)
	if eq < 0 {
		specErr("closure stmt needs 'lvalue = expr': %s", text)
	}
	lhsE, err := spec.ParseExpr(strings.TrimSpace(text[:eq]))
	if err != nil {
		specErr("%v", err)
	}
	rhsE, err := spec.ParseExpr(strings.TrimSpace(text[eq+1:]))
	if err != nil {
		specErr("%v", err)
	}
	run := func(s *State, rhsFirst bool) []Value {
		fe.rhsFirst = rhsFirst
		fe.memo = map[string]TV{}
		if rhsFirst {
			// evaluate the calls of the right-hand side first, then the whole expression (the calls
			// are memoised so that they are not repeated)
			fe.collect = true
			f.eval(rhsE, s, create)
			fe.collect = false
		}
		loc := x.evalPlace(f, fe, lhsE, s, create)
		v := f.eval(rhsE, s, create)
		fe.memo = map[string]TV{}
		v = f.coerce(v, loc.typ)
		loc.write(s, v.V)
		return x.trampoline(f, fe, s)
	}
	a := &specAlt{}
	a.first = st
	a.results = run(st, false)
	if fe.sawCall {
		s2 := f.entry.clone()
		a.second = s2
		a.results2 = run(s2, true)
	}
	return a
}

func topLevelAssign(s string) int {
	depth := 0
	for i := 0; i < len(s); i++ {
		switch s[i] {
		case '(', '[':
			depth++
		case ')', ']':
			depth--
		case '=':
			if depth == 0 {
				if i+1 < len(s) && s[i+1] == '=' {
					i++
					continue
				}
				if i > 0 && strings.ContainsRune("!<>=", rune(s[i-1])) {
					continue
				}
				return i
			}
		}
	}
	return -1
}

// trampoline: env.IP++ ; return env.Code[env.IP], env
func (x *Exec) trampoline(f *Frame, fe *famEnv, s *State) []Value {
	B := x.B
	envT := f.fn.Params[0].Type().Underlying().(*types.Pointer).Elem()
	ipP, ipT := x.fieldByName(fe.env, envT, "IP")
	ip := x.load(s, ipP, ipT).(*smt.Term)
	nip := B.BVBin("bvadd", ip, B.BVC(1, 64))
	x.store(s, ipP, ipT, nip)
	codeP, codeT := x.fieldByName(fe.env, envT, "Code")
	code := x.load(s, codeP, codeT)
	arr, off, _, _ := sliceParts(code)
	et := codeT.Underlying().(*types.Slice).Elem()
	p := &Ptr{Arr: arr, Idx: B.IndexAdd(off, nip), Off: off, Rel: nip, Key: "[]" + typeKey(et), Type: et}
	stmt := x.load(s, p, et)
	return []Value{stmt, fe.env}
}

// place is an assignable location of the contract language.
type place struct {
	typ   types.Type
	read  func(s *State) Value
	write func(s *State, v Value)
}

// evalPlace evaluates an lvalue ghost expression: variable(va) or deref(place-expression).
func (x *Exec) evalPlace(f *Frame, fe *famEnv, e spec.Expr, st, create *State) *place {
	if c, ok := e.(*spec.Call); ok {
		if id, ok := c.Fun.(*spec.Ident); ok {
			switch id.Name {
			case "variable":
				return x.variablePlace(f, fe, c.Args, st, create, "")
			case "boxed":
				return x.variablePlace(f, fe, c.Args, st, create, "boxed")
			case "unboxed":
				return x.variablePlace(f, fe, c.Args, st, create, "unboxed")
			}
		}
	}
	specErr("not an assignable ghost location: %s", e)
	return nil
}

// frameOf gives the frame `upn` levels above env (at run time), for a compile-time upn.
// depthT is the compile-time depth of the closure's scope; by the environment invariant
// env.FileEnv is the frame at distance depth-1 and env.FileEnv.Outer the one at distance depth.
func (x *Exec) frameOf(fe *famEnv, st *State, upn, depthT *smt.Term) *smt.Term {
	B := x.B
	envT := fe.envType()
	su := envT.Underlying().(*types.Struct)
	outer := func(r *smt.Term) *smt.Term {
		p := x.fieldAddr(r, envT, findField(su, "Outer")[0])
		return x.load(st, p, types.NewPointer(envT)).(*smt.Term)
	}
	if c, ok := fe.pinned(upn); ok {
		n := c.SignedVal()
		if n >= 0 && n <= 3 {
			r := fe.env
			for i := int64(0); i < n; i++ {
				r = outer(r)
			}
			return r
		}
	}
	if depthT != nil {
		fileEnv := func() *smt.Term {
			p := x.fieldAddr(fe.env, envT, findField(su, "FileEnv")[0])
			return x.load(st, p, types.NewPointer(envT)).(*smt.Term)
		}
		dm1 := B.BVBin("bvadd", depthT, B.BVC(^uint64(0), 64))
		if v, ok := fe.truth(B.Eq(upn, dm1)); ok && v {
			x.note("environment invariant (assumed for closures): env.FileEnv is the frame at distance depth-1, env.FileEnv.Outer the one at distance depth")
			return fileEnv()
		}
		if v, ok := fe.truth(B.Eq(upn, depthT)); ok && v {
			x.note("environment invariant (assumed for closures): env.FileEnv is the frame at distance depth-1, env.FileEnv.Outer the one at distance depth")
			return outer(fileEnv())
		}
	}
	return x.upTerm(st, fe.env, upn, envT)
}

func (fe *famEnv) envType() types.Type {
	for fr := fe.parent; fr != nil; fr = fr.caller {
		if p := fr.pkg(); p != nil {
			if tn, ok := p.Members["Env"].(*ssa.Type); ok {
				return tn.Type()
			}
		}
	}
	specErr("type Env not found")
	return nil
}

// upTerm is the ghost function up(env, n) over the current Outer field, with its defining
// equations instantiated three levels deep at this n.
func (x *Exec) upTerm(st *State, env, n *smt.Term, envT types.Type) *smt.Term {
	B := x.B
	key := typeKey(envT) + ".Outer"
	outerArr := x.heapGet(st, key, smt.Array(RefS, RefS))
	up := func(k *smt.Term) *smt.Term { return B.UF("up", RefS, outerArr, env, k) }
	zero := B.BVC(0, 64)
	x.assumeGlobal(B.Eq(up(zero), env))
	cur := n
	for i := 0; i < 3; i++ {
		prev := B.BVBin("bvadd", cur, B.BVC(^uint64(0), 64))
		x.assumeGlobal(B.Implies(B.BVCmp("bvslt", zero, cur), B.Eq(up(cur), B.Select(outerArr, up(prev)))))
		cur = prev
	}
	return up(n)
}

// variablePlace: variable(v [, depth]) is the storage of the compile-time variable v (a *Var,
// *Symbol or *Bind): slot[kind(v.Type)](up(env, v.Upn), v.Desc.Class(), v.Desc.Index()).
func (x *Exec) variablePlace(f *Frame, fe *famEnv, args []spec.Expr, st, create *State, force string) *place {
	B := x.B
	if len(args) < 1 {
		specErr("variable(v [, depth])")
	}
	par := fe.parent
	sc, si := par.cur, par.curIdx
	par.cur, par.curIdx = nil, 0
	defer func() { par.cur, par.curIdx = sc, si }()
	v := par.eval(args[0], create, create)
	var depthT *smt.Term
	if len(args) > 1 {
		depthT = par.asInt64(par.eval(args[1], create, create))
	}
	vt := v.T
	if pt, ok := vt.Underlying().(*types.Pointer); ok {
		vt = pt.Elem()
	}
	su, ok := vt.Underlying().(*types.Struct)
	if !ok {
		specErr("variable(): %s is not a variable descriptor", args[0])
	}
	get := func(name string) TV { return par.selectField(v, name, create) }
	upn := B.BVC(0, 64)
	if findField(su, "Upn") != nil {
		upn = par.asInt64(get("Upn"))
	}
	desc := get("Desc")
	descT := desc.V.(*smt.Term)
	// BindDescriptor: class = desc & 7 ... use the package's own pure methods
	class := par.callMethod(desc, "Class", create)
	index := par.asInt64(par.callMethod(desc, "Index", create))
	_ = descT
	typ := get("Type")
	kindT := x.kindOfXType(par, typ, create)
	kc, kindKnown := fe.pinned(kindT)
	var k uint64
	var gt types.Type
	if kindKnown {
		k = kc.Val
		gt = KindType(k)
	}
	frame := x.frameOf(fe, st, upn, depthT)
	envT := fe.envType()
	// storage class
	var intBind bool
	switch force {
	case "boxed":
		intBind = false
	case "unboxed":
		intBind = true
	default:
		var okc bool
		intBind, okc = x.classIsInt(par, fe, class)
		if !okc {
			specErr("the storage class of %s is not determined on this path", args[0])
		}
	}
	if gt == nil {
		// a kind outside the 17 optimised ones (or not selected on this path): the variable is the
		// reflect.Value itself
		if intBind {
			specErr("unboxed variable %s of a non-basic kind", args[0])
		}
		fp, sliceT := x.fieldByName(frame, envT, "Vals")
		elemT := sliceT.Underlying().(*types.Slice).Elem()
		loc := func(s *State) *Ptr {
			sl := x.load(s, fp, sliceT)
			arr, off, _, _ := sliceParts(sl)
			return &Ptr{Arr: arr, Idx: B.IndexAdd(off, index), Off: off, Rel: index, Key: "[]" + typeKey(elemT), Type: elemT}
		}
		return &place{typ: elemT,
			read:  func(s *State) Value { return x.load(s, loc(s), elemT) },
			write: func(s *State, v Value) { x.store(s, loc(s), elemT, v) }}
	}
	if intBind {
		fp, sliceT := x.fieldByName(frame, envT, "Ints")
		elemT := sliceT.Underlying().(*types.Slice).Elem()
		loc := func(s *State) *Ptr {
			sl := x.load(s, fp, sliceT)
			arr, off, _, _ := sliceParts(sl)
			return &Ptr{Arr: arr, Idx: B.IndexAdd(off, index), Off: off, Rel: index, Key: "[]" + typeKey(elemT), Type: elemT, View: gt}
		}
		return &place{typ: gt,
			read:  func(s *State) Value { return x.load(s, loc(s), gt) },
			write: func(s *State, v Value) { x.store(s, loc(s), gt, v) }}
	}
	// boxed: env.Vals[index] is a settable reflect.Value whose cell has the variable's kind
	fp, sliceT := x.fieldByName(frame, envT, "Vals")
	elemT := sliceT.Underlying().(*types.Slice).Elem()
	rv := func(s *State) *smt.Term {
		sl := x.load(s, fp, sliceT)
		arr, off, _, _ := sliceParts(sl)
		p := &Ptr{Arr: arr, Idx: B.IndexAdd(off, index), Off: off, Rel: index, Key: "[]" + typeKey(elemT), Type: elemT}
		return rvOf(x.load(s, p, elemT))
	}
	x.note("boxed variables: the reflect.Value stored in env.Vals[i] denotes a cell of the variable's static kind (assumed)")
	return &place{typ: gt,
		read: func(s *State) Value {
			r := rv(s)
			x.assumeGlobal(B.Eq(x.rkind(r), B.BVC(k, 64)))
			return x.cellRead(s, r, k)
		},
		write: func(s *State, v Value) {
			r := rv(s)
			x.assumeGlobal(B.Eq(x.rkind(r), B.BVC(k, 64)))
			x.cellWrite(s, r, k, v)
		}}
}

// cellRead / cellWrite: the K-typed view of a boxed cell.
func (x *Exec) cellRead(s *State, r *smt.Term, k uint64) Value {
	B := x.B
	t := KindType(k).(*types.Basic)
	switch kindCategory(k) {
	case "bool":
		return B.Select(x.rcell(s, "bool", smt.Bool), r)
	case "int":
		return B.Extract(basicSort(t).W-1, 0, B.Select(x.rcell(s, "int", I64), r))
	case "uint":
		return B.Extract(basicSort(t).W-1, 0, B.Select(x.rcell(s, "uint", I64), r))
	case "float":
		return B.FPConv(B.Select(x.rcell(s, "float", smt.FP64), r), basicSort(t))
	case "complex":
		fs := smt.FP64
		if k == kComplex64 {
			fs = smt.FP32
		}
		return &Struct{[]Value{B.FPConv(B.Select(x.rcell(s, "cre", smt.FP64), r), fs), B.FPConv(B.Select(x.rcell(s, "cim", smt.FP64), r), fs)}}
	case "str":
		return B.Select(x.rcell(s, "str", StrS), r)
	}
	specErr("cell of kind %d", k)
	return nil
}

func (x *Exec) cellWrite(s *State, r *smt.Term, k uint64, v Value) {
	B := x.B
	t := KindType(k).(*types.Basic)
	switch kindCategory(k) {
	case "bool":
		x.heapSet(s, "rcell#bool", B.Store(x.rcell(s, "bool", smt.Bool), r, v.(*smt.Term)))
	case "int":
		x.heapSet(s, "rcell#int", B.Store(x.rcell(s, "int", I64), r, B.SignExt(64-basicSort(t).W, v.(*smt.Term))))
	case "uint":
		x.heapSet(s, "rcell#uint", B.Store(x.rcell(s, "uint", I64), r, B.ZeroExt(64-basicSort(t).W, v.(*smt.Term))))
	case "float":
		x.heapSet(s, "rcell#float", B.Store(x.rcell(s, "float", smt.FP64), r, B.FPConv(v.(*smt.Term), smt.FP64)))
	case "complex":
		c := v.(*Struct)
		x.heapSet(s, "rcell#cre", B.Store(x.rcell(s, "cre", smt.FP64), r, B.FPConv(c.Fields[0].(*smt.Term), smt.FP64)))
		x.heapSet(s, "rcell#cim", B.Store(x.rcell(s, "cim", smt.FP64), r, B.FPConv(c.Fields[1].(*smt.Term), smt.FP64)))
	case "str":
		x.heapSet(s, "rcell#str", B.Store(x.rcell(s, "str", StrS), r, v.(*smt.Term)))
	default:
		specErr("cell of kind %d", k)
	}
}

// classIsInt decides whether the storage class term is IntBind on this path.
func (x *Exec) classIsInt(par *Frame, fe *famEnv, class TV) (bool, bool) {
	B := x.B
	ct := class.V.(*smt.Term)
	var intBind *smt.Term
	if p := par.pkg(); p != nil {
		if c, ok := p.Members["IntBind"].(*ssa.NamedConst); ok {
			intBind = x.constValue(c.Value).(*smt.Term)
		}
	}
	if intBind == nil {
		specErr("constant IntBind not found")
	}
	if c, ok := fe.pinned(ct); ok {
		return c.Val == intBind.Val, true
	}
	if v, ok := fe.truth(B.Eq(ct, intBind)); ok {
		return v, true
	}
	return false, false
}

// callMethod calls a pure method of the package on a value.
func (f *Frame) callMethod(recv TV, name string, st *State) TV {
	x := f.x
	ms := x.Prog.MethodSets.MethodSet(recv.T)
	for i := 0; i < ms.Len(); i++ {
		if ms.At(i).Obj().Name() == name {
			fn := x.Prog.MethodValue(ms.At(i))
			return f.callPure(fn, nil, []Value{recv.V}, st)
		}
	}
	specErr("type %s has no method %s", recv.T, name)
	return TV{}
}

// kindOfXType: t.Kind() for an xreflect.Type value (a pure getter).
func (x *Exec) kindOfXType(f *Frame, t TV, st *State) *smt.Term {
	return x.xtypeKind(t.V)
}

// xtypeKind: xreflect.Type is a function type whose values stand for types; Kind() is modelled as a
// pure function of that value.
func (x *Exec) xtypeKind(v Value) *smt.Term {
	x.note("library spec: xreflect.Type.Kind() is a pure function of the type value")
	if s, ok := v.(*Struct); ok {
		return x.B.UF("xtype_kind2", I64, s.Fields[0].(*smt.Term), x.scalar(s.Fields[1], nil))
	}
	return x.B.UF("xtype_kind", I64, x.scalar(v, nil))
}
