package sym

import (
	"fmt"
	"go/types"
	"os"
	"runtime/debug"
	"sort"
	"strings"

	"golang.org/x/tools/go/ssa"

	"gowp/smt"
	"gowp/spec"
)

// Closure families. gomacro compiles every syntactic form to one of many pre-written closures,
// selected by operand kind, constness, variable depth and storage class. A family contract is
// attached to the compile function and quantifies over its result:
//
//	//@ func (*Comp).Add(node, xe, ye) ret
//	//@   closure expr operand(xe) + operand(ye)
//
// "every closure this function creates, when run on any environment, returns operand(xe)+operand(ye)
// in the kind selected on that path, calls the operand closures exactly in that order and changes
// nothing else". Each MakeClosure site is one verification unit named after its path signature.

type closureSite struct {
	frame *Frame
	st    *State
	mc    *ssa.MakeClosure
	clo   *Closure
}

// famEnv is the context ghost functions of closure contracts run in.
type famEnv struct {
	x      *Exec
	parent *Frame // frame of the compile function (values at closure creation)
	create *State // state at closure creation
	env    *smt.Term
	facts  map[int]bool // truth of atoms decided by the creation path condition
	pins   map[int]*smt.Term
	notes  []string
	// evaluation of statement schemas
	memo         map[string]TV
	collect      bool
	rhsFirst     bool
	sawCall      bool
	pendingCalls []string
	resolved     map[string]*resolved // places whose address was already resolved (statement schemas)
	specFrame    *smt.Term            // up(env, upn) as first computed by the specification (generic depth)
	inSpec       bool                 // the places of a frame-only contract are being resolved
}

// VerifyFamily checks the function's own contract and every closure it creates.
func (x *Exec) VerifyFamily(fn *ssa.Function) (rep *FuncReport) {
	var sites []*closureSite
	x.OnMakeClosure = func(f *Frame, st *State, mc *ssa.MakeClosure, c *Closure) {
		if f.fn == fn && f.top {
			// snapshot of the frame: in path mode registers are overwritten by later paths
			fc := *f
			fc.regs = make(map[ssa.Value]Value, len(f.regs))
			for k, v := range f.regs {
				fc.regs[k] = v
			}
			fc.over = map[string]Value{}
			fc.overTV = map[string]TV{}
			sites = append(sites, &closureSite{frame: &fc, st: st.clone(), mc: mc, clo: c})
		}
	}
	// normal returns of the compile function that hand back one of its own *Expr parameters
	// instead of a new closure (x+0 -> x ...): alias returns, checked against the same contract
	type aliasRet struct {
		frame *Frame
		r     exitRec
		param *ssa.Parameter
	}
	var aliases, nilRets []aliasRet
	// ... or the result of another compile function that has a family contract of its own
	// (x * 8 -> mulPow2(...)): delegated returns
	type delegRet struct {
		frame  *Frame
		r      exitRec
		callee *ssa.Function
		args   []Value
		pre    *State
	}
	var delegs []delegRet
	x.OnTopReturn = func(f *Frame, r exitRec) {
		if f.fn != fn || len(r.results) != 1 {
			return
		}
		// a statement compile function returning nil compiles the statement to nothing
		if rs, isS := r.results[0].(*Struct); isS && len(rs.Fields) == 2 {
			if t0, isT := rs.Fields[0].(*smt.Term); isT {
				if x.simplifyUnder(r.st.PC, x.B.Eq(t0, x.B.IntC(0))).IsTrue() || (t0.IsConst() && t0.Val == 0) {
					nilRets = append(nilRets, aliasRet{f, r, nil})
					return
				}
				for _, rec := range f.callHist {
					if len(rec.results) == 1 && rec.fn != nil {
						if cs, isCS := rec.results[0].(*Struct); isCS && len(cs.Fields) == 2 && cs.Fields[0] == rs.Fields[0] && cs.Fields[1] == rs.Fields[1] {
							if csp := x.specFor(rec.fn); csp != nil && len(csp.Of("closure")) > 0 {
								delegs = append(delegs, delegRet{f, r, rec.fn, rec.args, rec.pre})
								return
							}
						}
					}
				}
			}
			return
		}
		rt, ok := r.results[0].(*smt.Term)
		if !ok {
			return
		}
		if _, isFunc := fn.Signature.Results().At(0).Type().Underlying().(*types.Signature); isFunc {
			// (a statement is a function value: nil is the zero reference)
			if rt.IsConst() && rt.Val == 0 {
				nilRets = append(nilRets, aliasRet{f, r, nil})
				return
			}
		}
		for _, rec := range f.callHist {
			if len(rec.results) == 1 && rec.results[0] == Value(rt) && rec.fn != nil {
				if csp := x.specFor(rec.fn); csp != nil && len(csp.Of("closure")) > 0 {
					delegs = append(delegs, delegRet{f, r, rec.fn, rec.args, rec.pre})
					return
				}
			}
		}
		for _, p := range fn.Params {
			if pv, ok := f.regs[p].(*smt.Term); ok && pv == rt && p.Type().String() == fn.Signature.Results().At(0).Type().String() {
				aliases = append(aliases, aliasRet{f, r, p})
			}
		}
	}
	rep = x.VerifyFunc(fn)
	x.OnMakeClosure = nil
	x.OnTopReturn = nil
	if rep.Error != "" {
		return rep
	}
	sp := x.specFor(fn)
	start := len(x.Obls)
	defer func() {
		if r := recover(); r != nil {
			switch e := r.(type) {
			case Unsupported:
				rep.Error = e.Error()
			case SpecError:
				rep.Error = e.Error()
			default:
				rep.Error = fmt.Sprintf("engine fault: %v\n%s", r, debug.Stack())
			}
			if os.Getenv("GOWP_DEBUG") != "" {
				rep.Error += "\n" + string(debug.Stack())
			}
		}
		rep.Obligations = append(rep.Obligations, x.Obls[start:]...)
		rep.Closures = len(sites)
		rep.Notes = rep.Notes[:0]
		for n := range x.Notes {
			rep.Notes = append(rep.Notes, n)
		}
		sort.Strings(rep.Notes)
	}()
	partial := false
	for _, c := range sp.Of("closure") {
		if strings.HasPrefix(strings.TrimSpace(c.Text), "partial") {
			partial = true
		}
	}
	seen := map[string]int{}
	for _, s := range sites {
		sig := x.pathSignature(s)
		seen[sig]++
		if seen[sig] > 1 {
			sig = fmt.Sprintf("%s;#%d", sig, seen[sig])
		}
		func() {
			// a closure the generator cannot process is one undischarged obligation, not the end of
			// the whole family
			defer func() {
				if r := recover(); r != nil {
					var msg string
					switch e := r.(type) {
					case Unsupported:
						msg = e.Error()
					case SpecError:
						msg = e.Error()
					default:
						panic(r)
					}
					if os.Getenv("GOWP_DEBUG") != "" {
						msg += "\n" + string(debug.Stack())
					}
					if partial && (strings.Contains(msg, "of kind ") || strings.Contains(msg, "kind of") && strings.Contains(msg, "not determined") || strings.Contains(msg, "no closure clause of") || strings.Contains(msg, "not a func(*Env) K value") || strings.Contains(msg, "cannot use literal as")) {
						// the contract says it covers the 17 basic kinds only: closures for other
						// kinds are not under contract (counted and reported, never claimed)
						rep.Uncovered = append(rep.Uncovered, sig+": "+msg)
						x.NoObl = 0
						return
					}
					x.prefix = QualName(fn)
					x.sig = sig
					x.NoObl = 0
					st := x.newState()
					x.oblige("closure-not-analysable", msg, x.where(s.clo.Fn), st, x.B.False())
				}
			}()
			// "closure split NAME in LO..HI": a case split on a local of the compile function that
			// the closure captures (a shift count, ...), when its creation path does not fix it
			wide := false
			if rs := s.clo.Fn.Signature.Results(); rs.Len() == 1 {
				if bt, isB := rs.At(0).Type().Underlying().(*types.Basic); isB {
					switch bt.Kind() {
					case types.Int, types.Int64, types.Uint, types.Uint64, types.Uintptr, types.Int32, types.Uint32:
						wide = true // the solvers handle a symbolic split variable at 8 and 16 bits
					}
				}
			}
			if name, lo, hi, ok := splitClause(sp); ok && wide {
				if d, found := s.frame.lookupName(name); found && !d.addr {
					if t, isT := s.frame.regs[d.v].(*smt.Term); isT && t.S.K == smt.KBV {
						// a creation path that cannot happen is not split 64 ways
						if x.entailed(x.dropQuantified(s.st.PC), x.B.False()) {
							return
						}
						_, pinned0 := propagatePin(s.st.PC, t)
						if os.Getenv("GOWP_DEBUG") == "4" {
							fmt.Fprintf(os.Stderr, "SPLIT %s: %s pinned=%v\n", sig, clipS(t.String(), 120), pinned0)
						}
						if _, pinned := propagatePin(s.st.PC, t); !pinned && !t.IsConst() {
							var vals []uint64
							if lo < 0 {
								for e := 0; e < t.S.W; e++ {
									vals = append(vals, uint64(1)<<uint(e))
								}
								// the cases are exhaustive on this path
								var any []*smt.Term
								for _, v := range vals {
									any = append(any, x.B.Eq(t, x.B.BVC(v, t.S.W)))
								}
								x.prefix = QualName(s.frame.fn)
								x.sig = sig
								x.oblige("split-exhaustive", name+" is a power of two on this creation path", x.where(s.clo.Fn), s.st, x.B.Or(any...))
							} else {
								for v := lo; v <= hi; v++ {
									vals = append(vals, uint64(v))
								}
							}
							for _, v := range vals {
								sv := *s
								sv.st = s.st.clone()
								sv.st.PC = x.B.And(s.st.PC, x.B.Eq(t, x.B.BVC(v, t.S.W)))
								if sv.st.PC.IsFalse() {
									continue // this value is excluded by the creation path
								}
								x.checkClosure(sp, &sv, fmt.Sprintf("%s;%s=%d", sig, name, v))
							}
							return
						}
					}
				}
			}
			x.checkClosure(sp, s, sig)
		}()
	}
	for i, a := range aliases {
		func() {
			defer func() {
				if r := recover(); r != nil {
					var msg string
					switch e := r.(type) {
					case Unsupported:
						msg = e.Error()
					case SpecError:
						msg = e.Error()
					default:
						panic(r)
					}
					x.prefix = QualName(fn)
					x.sig = fmt.Sprintf("alias%d:%s", i+1, a.param.Name())
					x.NoObl = 0
					x.oblige("closure-not-analysable", msg, a.r.where, x.newState(), x.B.False())
				}
			}()
			x.checkAlias(sp, a.frame, a.r, a.param, i+1)
		}()
	}
	for i, d := range delegs {
		func() {
			defer func() {
				if r := recover(); r != nil {
					var msg string
					switch e := r.(type) {
					case Unsupported:
						msg = e.Error()
					case SpecError:
						msg = e.Error()
					default:
						panic(r)
					}
					x.prefix = QualName(fn)
					x.sig = fmt.Sprintf("deleg%d:%s", i+1, d.callee.Name())
					x.NoObl = 0
					x.oblige("closure-not-analysable", msg, d.r.where, x.newState(), x.B.False())
				}
			}()
			// the compile-time facts are read in the state just before the delegated call (the
			// callee's frame condition says nothing about the expression trees afterwards)
			dr := d.r
			if d.pre != nil {
				pre := d.pre.clone()
				pre.PC = d.r.st.PC
				dr.st = pre
			}
			x.checkDelegated(sp, d.frame, dr, d.callee, d.args, i+1)
		}()
	}
	for i, a := range nilRets {
		func() {
			defer func() {
				if r := recover(); r != nil {
					var msg string
					switch e := r.(type) {
					case Unsupported:
						msg = e.Error()
					case SpecError:
						msg = e.Error()
					default:
						panic(r)
					}
					x.prefix = QualName(fn)
					x.sig = fmt.Sprintf("nil%d", i+1)
					x.NoObl = 0
					x.oblige("closure-not-analysable", msg, a.r.where, x.newState(), x.B.False())
				}
			}()
			x.checkStmtReturn(sp, a.frame, a.r, nil, nil, fmt.Sprintf("nil%d", i+1))
		}()
	}
	rep.Aliases = len(aliases) + len(delegs) + len(nilRets)
	// every FuncLit of the function must have been reached (no closure silently unmatched)
	nlit := len(fn.AnonFuncs)
	distinct := map[*ssa.Function]bool{}
	for _, s := range sites {
		distinct[s.clo.Fn] = true
	}
	if nlit != len(distinct) {
		x.prefix = QualName(fn)
		x.sig = ""
		st := x.newState()
		o := x.oblige("closures-reached", fmt.Sprintf("%d function literals in the source, %d of them reached by the analysis", nlit, len(distinct)), QualName(fn), st, x.B.False())
		_ = o
	}
	return rep
}

// pathSignature names a closure by the values of the named locals its creation path pins.
func (x *Exec) pathSignature(s *closureSite) string {
	f := s.frame
	names := map[int]string{}
	for n, defs := range f.names {
		for _, d := range defs {
			if v, ok := f.regs[d.v]; ok && !d.addr {
				if t, ok := v.(*smt.Term); ok {
					if _, dup := names[t.ID]; !dup || len(n) < len(names[t.ID]) {
						names[t.ID] = n
					}
				}
			}
		}
	}
	var parts []string
	for _, c := range conjuncts(s.st.PC) {
		neg := false
		a := c
		if a.Op == "not" {
			neg = true
			a = a.Args[0]
		}
		if a.Op == "=" && len(a.Args) == 2 {
			l, r := a.Args[0], a.Args[1]
			if l.IsConst() {
				l, r = r, l
			}
			if n, ok := names[l.ID]; ok && r.IsConst() && !neg {
				val := fmt.Sprint(r.SignedVal())
				if n == "k" || strings.HasSuffix(n, "kind") || n == "kr" {
					if kn, ok := kindNames[r.Val]; ok {
						val = kn
					}
				}
				parts = append(parts, n+"="+val)
				continue
			}
			if n, ok := names[l.ID]; ok && !neg {
				if n2, ok2 := names[r.ID]; ok2 {
					parts = append(parts, n+"="+n2)
				}
			}
			continue
		}
		if n, ok := names[a.ID]; ok && a.S == smt.Bool {
			if neg {
				parts = append(parts, "!"+n)
			} else {
				parts = append(parts, n)
			}
		}
	}
	if len(parts) == 0 {
		return s.clo.Fn.Name()
	}
	return strings.Join(parts, ",")
}

// propagate decides atoms from the conjuncts of a path condition (unit propagation over
// boolean equalities), enough to tell whether an operand is constant on this path.
func propagate(pc *smt.Term) (map[int]bool, map[int]*smt.Term) {
	facts := map[int]bool{}
	pins := map[int]*smt.Term{}
	cs := conjuncts(pc)
	for round := 0; round < 4; round++ {
		for _, c := range cs {
			neg := false
			a := c
			if a.Op == "not" {
				neg = true
				a = a.Args[0]
			}
			if a.Op == "=" && len(a.Args) == 2 && a.Args[0].S == smt.Bool {
				l, r := a.Args[0], a.Args[1]
				lv, lok := facts[l.ID]
				rv, rok := facts[r.ID]
				// (l == r) holds (neg false) or fails (neg true)
				if lok && !rok {
					facts[r.ID] = lv != neg
				}
				if rok && !lok {
					facts[l.ID] = rv != neg
				}
				continue
			}
			if a.Op == "=" && len(a.Args) == 2 && !neg {
				l, r := a.Args[0], a.Args[1]
				if r.IsConst() {
					if old, ok := pins[l.ID]; ok && old != r {
						facts[-1] = true // the path condition is contradictory
					}
					pins[l.ID] = r
				} else if l.IsConst() {
					if old, ok := pins[r.ID]; ok && old != l {
						facts[-1] = true
					}
					pins[r.ID] = l
				} else if c, ok := pins[l.ID]; ok {
					pins[r.ID] = c
				} else if c, ok := pins[r.ID]; ok {
					pins[l.ID] = c
				}
			}
			facts[a.ID] = !neg
		}
	}
	return facts, pins
}

func (fe *famEnv) truth(t *smt.Term) (bool, bool) {
	if t.IsTrue() {
		return true, true
	}
	if t.IsFalse() {
		return false, true
	}
	if t.Op == "not" {
		v, ok := fe.truth(t.Args[0])
		return !v, ok
	}
	v, ok := fe.facts[t.ID]
	return v, ok
}

func (fe *famEnv) pinned(t *smt.Term) (*smt.Term, bool) {
	if t.IsConst() {
		return t, true
	}
	c, ok := fe.pins[t.ID]
	return c, ok
}

// checkClosure verifies one closure against the closure clauses of the compile function.
func (x *Exec) checkClosure(sp *spec.FuncSpec, s *closureSite, sig string) {
	B := x.B
	x.prefix = QualName(s.frame.fn)
	x.sig = sig
	var exprC, stmtC, jumpC, modC *spec.Clause
	exprVoid := false
	var reqs, invs, ensC []*spec.Clause
	var panC *spec.Clause
	for _, c := range sp.Of("closure") {
		w := strings.Fields(c.Text)
		if len(w) == 0 {
			continue
		}
		switch w[0] {
		case "expr", "do":
			// "expr E [if cond]" / "do E [if cond]": the first clause whose condition (over the compile
			// function's values at creation) holds on this path applies; "do" ignores the value
			if exprC != nil {
				continue
			}
			txt := strings.TrimSpace(strings.TrimPrefix(strings.TrimSpace(c.Text), w[0]))
			if k := strings.LastIndex(txt, " if "); k >= 0 {
				ce, err := spec.ParseExpr(txt[k+4:])
				if err != nil {
					specErr("%v", err)
				}
				ok := false
				func() {
					defer func() {
						if r := recover(); r != nil {
							if _, isS := r.(SpecError); isS {
								return
							}
							if _, isU := r.(Unsupported); isU {
								return
							}
							panic(r)
						}
					}()
					// captures(name): the closure captures that local of the compile function
					capFrame := *s.frame
					capFrame.overTV = map[string]TV{}
					for k, v := range s.frame.overTV {
						capFrame.overTV[k] = v
					}
					for _, fv := range s.clo.Fn.FreeVars {
						capFrame.overTV["captures$"+fv.Name()] = TV{x.B.True(), types.Typ[types.Bool]}
					}
					x.capNames = capFrame.overTV
					cond := x.simplifyUnder(s.st.PC, capFrame.evalBool(ce, s.st, s.st))
					x.capNames = nil
					ok = cond.IsTrue() || (!cond.IsFalse() && x.entailed(x.dropQuantified(s.st.PC), cond))
				}()
				if !ok {
					continue
				}
				cc := *c
				cc.Text = w[0] + " " + strings.TrimSpace(txt[:k])
				c = &cc
			}
			exprC = c
			exprVoid = w[0] == "do"
		case "stmt":
			stmtC = c
		case "jump":
			jumpC = c
		case "modifies":
			modC = c
		case "ensures":
			ensC = append(ensC, c)
		case "requires":
			reqs = append(reqs, c)
		case "loop":
			invs = append(invs, c)
		case "panics":
			// "panics if C": the closure panics exactly when C holds (C is evaluated like the
			// contract expression, on a copy of the state the closure starts from)
			panC = c
		}
	}
	if exprC == nil && stmtC == nil && jumpC == nil && modC == nil {
		specErr("no closure clause of %s applies on this creation path", QualName(s.frame.fn))
	}
	clo := s.clo
	fn := clo.Fn
	// run-time state: arbitrary heap, captured cells as they were when the closure was created
	x.famN++
	run := x.newState()
	run.lazy = &lazyHeap{base: B.Var(fmt.Sprintf("rtok%d", x.famN), RefS)}
	for c, v := range s.st.cells {
		run.cells[c] = v
	}
	// the creation path condition, minus conjuncts that carry quantifiers (array facts of inlined
	// callees of the compile function): dropping hypotheses is sound and keeps the closure's
	// obligations small
	run.PC = x.dropQuantified(s.st.PC)
	facts, pins := propagate(s.st.PC)
	if facts[-1] {
		// infeasible path (a value pinned to two different constants): nothing to prove
		return
	}
	fe := &famEnv{x: x, parent: s.frame, create: s.st, facts: facts, pins: pins, memo: map[string]TV{}}
	// parameters
	nf := x.newFrame(fn, nil)
	nf.outer = s.frame
	nf.top = true
	nf.binds = clo.Binds
	var args []Value
	for _, p := range fn.Params {
		v := x.namedValue(p.Name(), p.Type())
		args = append(args, v)
		nf.regs[p] = v
		if t, ok := v.(*smt.Term); ok && t.S == RefS {
			run.PC = B.And(run.PC, B.Neq(t, B.IntC(0)))
			if fe.env == nil {
				fe.env = t
			}
		}
	}
	x.fam = fe
	// facts assumed while checking this closure (instances of up(), cell kinds, ...) are local to it
	nAssume := len(x.assumes)
	defer func() {
		x.fam = nil
		x.assumes = x.assumes[:nAssume]
	}()
	// closure-level loop invariants: "loop N invariant e" inside closure clauses
	for _, c := range invs {
		w := strings.Fields(c.Text)
		if len(w) < 4 {
			specErr("closure loop N invariant|decreases expr")
		}
		var n int
		fmt.Sscanf(w[1], "%d", &n)
		kind := w[2]
		idx := strings.Index(c.Text, kind)
		e, err := spec.ParseExpr(strings.TrimSpace(c.Text[idx+len(kind):]))
		if err != nil {
			specErr("%v", err)
		}
		for _, li := range nf.loops {
			if li.ordinal == n {
				cl := &spec.Clause{Kind: kind, Loop: n, Expr: e, Text: c.Text, File: c.File, Line: c.Line}
				if kind == "invariant" {
					li.inv = append(li.inv, cl)
				} else {
					li.dec = append(li.dec, cl)
				}
			}
		}
	}
	nf.entry = run
	for _, c := range reqs {
		e, err := spec.ParseExpr(strings.TrimSpace(strings.TrimPrefix(strings.TrimSpace(c.Text), "requires")))
		if err != nil {
			specErr("%v", err)
		}
		rq := x.simplifyUnder(run.PC, nf.evalBool(e, run, s.st))
		if os.Getenv("GOWP_DEBUG") == "3" {
			fmt.Fprintf(os.Stderr, "REQ %s => %s\n", c.Text, clipS(rq.String(), 400))
		}
		run.PC = B.And(run.PC, rq)
	}
	if len(reqs) > 0 {
		// the assumptions may pin further values (e.g. the kind of a variable)
		fe.facts, fe.pins = propagate(run.PC)
		if fe.facts[-1] || run.PC.IsFalse() {
			return
		}
		// the closure's precondition may contradict its creation path without being literally
		// false (e.g. a kind test phrased differently): ask the solvers once
		if x.entailed(run.PC, B.False()) {
			return
		}
	}
	// 1. the specification, executed on a copy of the initial state
	specSt := run.clone()
	specFrame := x.newFrame(fn, nil)
	specFrame.outer = s.frame
	for i, p := range fn.Params {
		specFrame.regs[p] = args[i]
	}
	specFrame.binds = clo.Binds
	specFrame.entry = run
	var specRes []Value
	var alt *specAlt
	x.NoObl++
	if exprC == nil && stmtC == nil && jumpC == nil {
		// frame-only contract: checked after the run (see below)
	} else if exprC != nil {
		e, err := spec.ParseExpr(strings.TrimSpace(strings.TrimPrefix(strings.TrimPrefix(strings.TrimSpace(exprC.Text), "expr"), "do")))
		if err != nil {
			x.NoObl--
			specErr("%v", err)
		}
		tv := specFrame.eval(e, specSt, s.st)
		specRes = []Value{tv.V}
		if exprVoid {
			specRes = nil
		}
		// result type must be the Go type of the kind selected on this path
		rt := fn.Signature.Results()
		if exprVoid {
			if rt.Len() != 0 {
				x.NoObl--
				x.oblige("closure-type", "closure returns nothing", x.where(fn), run, B.False())
				return
			}
		} else if rt.Len() != 1 || (tv.T != nil && !types.Identical(rt.At(0).Type().Underlying(), tv.T.Underlying())) {
			x.NoObl--
			x.oblige("closure-type", fmt.Sprintf("closure returns %s, the contract value has type %s", rt, tv.T), x.where(fn), run, B.False())
			return
		}
	} else if jumpC != nil {
		alt = x.evalJumpSpec(specFrame, fe, jumpC, specSt, s.st)
		specRes = alt.results
	} else {
		alt = x.evalStmtSpec(specFrame, fe, stmtC, specSt, s.st)
		specRes = alt.results
	}
	// the panic condition, on its own copy of the initial state (its operand calls are then the same
	// terms as the first calls of the closure and of the contract expression)
	var panicCond *smt.Term
	if panC != nil {
		txt := strings.TrimSpace(strings.TrimPrefix(strings.TrimSpace(panC.Text), "panics"))
		txt = strings.TrimSpace(strings.TrimPrefix(txt, "if"))
		applies := true
		if k := strings.LastIndex(txt, " if "); k >= 0 {
			// "panics if C if G": only on creation paths where G holds
			ge, err := spec.ParseExpr(txt[k+4:])
			if err != nil {
				x.NoObl--
				specErr("%v", err)
			}
			g := x.simplifyUnder(s.st.PC, s.frame.evalBool(ge, s.st, s.st))
			applies = g.IsTrue() || (!g.IsFalse() && x.entailed(x.dropQuantified(s.st.PC), g))
			txt = txt[:k]
		}
		if applies {
			pe, err := spec.ParseExpr(txt)
			if err != nil {
				x.NoObl--
				specErr("%v", err)
			}
			fe.memo = map[string]TV{}
			panicCond = specFrame.evalBool(pe, run.clone(), s.st)
			fe.memo = map[string]TV{}
		}
	}
	x.NoObl--
	// 2. the closure itself
	x.famSafety = sp.Flags["safety"]
	res := nf.run(run.clone(), args)
	x.famSafety = false
	if len(res.Rets) == 0 {
		x.oblige("closure-returns", "the closure has a normal return", x.where(fn), run, B.False())
		return
	}
	clauseText := ""
	if exprC == nil && stmtC == nil && jumpC == nil {
		clauseText = modC.Text
	} else if exprC != nil {
		clauseText = exprC.Text
	} else if jumpC != nil {
		clauseText = jumpC.Text
	} else {
		clauseText = stmtC.Text
	}
	where := x.where(fn)
	// Frame lemma: a closure that walks the frame chain in a loop ends with a fresh variable o about
	// which the invariant says o == up(env, i). Proving o == up(env, upn) separately and substituting
	// it keeps the main obligation free of the loop variable (the terms of both sides then coincide).
	var loopFrames []*smt.Term
	if fe.specFrame != nil {
		for _, li := range nf.loops {
			for _, phi := range li.phis {
				if t, ok := nf.regs[phi].(*smt.Term); ok && t.S == RefS && t.Op == "var" {
					loopFrames = append(loopFrames, t)
				}
			}
		}
	}
	for i, r := range res.Rets {
		if r.st.PC.IsFalse() {
			continue
		}
		if len(res.Rets) > 1 {
			x.sig = fmt.Sprintf("%s;ret%d", sig, i+1)
		}
		var frameSub map[*smt.Term]*smt.Term
		if len(loopFrames) > 0 {
			sub := map[*smt.Term]*smt.Term{}
			frameSub = sub
			for _, o := range loopFrames {
				x.oblige("closure-frame", "the frame reached by the loop is up(env, upn)", where, r.st, B.Eq(o, fe.specFrame))
				sub[o] = fe.specFrame
			}
			// (the lemma just stated is also made available as a hypothesis of what follows: the loop
			// variable may occur where the substitution below does not reach, e.g. in call tokens)
			for _, o := range loopFrames {
				r.st.PC = B.And(r.st.PC, B.Eq(o, fe.specFrame))
			}
			for k, v := range r.st.heap {
				r.st.heap[k] = B.Subst(v, sub)
			}
			for k, v := range r.results {
				if t, ok := v.(*smt.Term); ok {
					r.results[k] = B.Subst(t, sub)
				}
			}
		}
		var goal *smt.Term
		if exprC == nil && stmtC == nil && jumpC == nil && strings.TrimSpace(strings.TrimPrefix(strings.TrimSpace(modC.Text), "modifies")) == "everything" {
			// no frame claim at all: only the safety obligations generated while running the closure
			goal = B.True()
		} else if exprC == nil && stmtC == nil && jumpC == nil {
			// frame-only contract: the final heap equals the initial heap except at the listed places
			x.NoObl++
			expect := x.frameOnlyState(specFrame, fe, modC, run.clone(), r.st, s.st)
			x.NoObl--
			goal = x.sameOutcome(exitRec{st: r.st}, nil, expect)
		} else if alt != nil {
			var gs []*smt.Term
			for k := range alt.states {
				gs = append(gs, x.sameOutcome(r, alt.res[k], alt.states[k]))
			}
			goal = B.Or(gs...)
		} else {
			goal = x.sameOutcome(r, specRes, specSt)
		}
		// postconditions of the closure: "closure ensures e" over its parameters, results (result,
		// result0, ...), old(...) = the heap the closure started from, and ghosts
		for _, ec := range ensC {
			e, err := spec.ParseExpr(strings.TrimSpace(strings.TrimPrefix(strings.TrimSpace(ec.Text), "ensures")))
			if err != nil {
				specErr("%v", err)
			}
			nf.over = map[string]Value{}
			nf.bindResults(nil, r.results)
			sc, si := nf.cur, nf.curIdx
			nf.cur, nf.curIdx = nil, 0
			x.NoObl++
			g := nf.evalBool(e, r.st, run)
			x.NoObl--
			nf.cur, nf.curIdx = sc, si
			x.oblige("closure-ensures", ec.Text, where, r.st, g)
		}
		if len(frameSub) > 0 {
			goal = B.Subst(goal, frameSub)
		}
		if panicCond != nil {
			// a normal return means the panic condition did not hold
			goal = B.And(goal, B.Not(panicCond))
		}
		goal = x.simplifyUnder(r.st.PC, goal)
		ob := x.oblige("closure", clauseText, where, r.st, goal)
		if ob != nil && len(frameSub) > 0 {
			// the frame lemma (proved above) justifies the same substitution in the hypotheses
			for hi, h := range ob.Hyps {
				ob.Hyps[hi] = B.Subst(h, frameSub)
			}
			ob.PC = B.Subst(ob.PC, frameSub)
		}
	}
	x.sig = sig
	// panics of the closure must be panics of the specification: the spec evaluation has no panic
	// paths other than those of the Go operators it uses, which the closure shares when it computes
	// the same terms; explicit panics inside closures are reported
	for _, p := range res.Panics {
		if panicCond != nil {
			x.oblige("closure-panic", panC.Text, p.where, p.st, x.simplifyUnder(p.st.PC, panicCond))
			continue
		}
		x.oblige("closure-no-extra-panic", "explicit panic in a closure body", p.where, p.st, B.False())
	}
}

func (x *Exec) where(fn *ssa.Function) string {
	p := x.Prog.Fset.Position(fn.Pos())
	return fmt.Sprintf("%s:%d", strings.TrimPrefix(p.Filename, "/repo/"), p.Line)
}

// sameOutcome: results equal and every heap key equal (extensionally) between the closure's final
// state and the specification's final state.
func (x *Exec) sameOutcome(r exitRec, specRes []Value, specSt *State) *smt.Term {
	B := x.B
	var cs []*smt.Term
	if len(r.results) != len(specRes) {
		return B.False()
	}
	for i := range specRes {
		cs = append(cs, x.eqLoose(r.results[i], specRes[i]))
	}
	keys := map[string]*smt.Sort{}
	for k, v := range r.st.heap {
		keys[k] = v.S
	}
	for k, v := range specSt.heap {
		keys[k] = v.S
	}
	var ks []string
	for k := range keys {
		ks = append(ks, k)
	}
	sort.Strings(ks)
	for _, k := range ks {
		if k == "$live" {
			continue
		}
		a := x.heapGet(r.st, k, keys[k])
		b := x.heapGet(specSt, k, keys[k])
		cs = append(cs, x.eqStores(a, b))
	}
	// same sequence of operand calls
	if !sameLazyShape(r.st.lazy, specSt.lazy) {
		cs = append(cs, x.lazyEq(r.st.lazy, specSt.lazy))
	}
	return B.And(cs...)
}

// eqStores: equality of two array terms that are store-chains of the same shape over the same base
// is decomposed into equality of the indices and of the stored values (a sufficient condition that
// keeps array extensionality and the floating-point theory out of the query); other shapes are
// compared as arrays.
func (x *Exec) eqStores(a, b *smt.Term) *smt.Term {
	B := x.B
	if a == b {
		return B.True()
	}
	if a.Op == "store" && b.Op == "store" && a.S == b.S {
		base := x.eqStores(a.Args[0], b.Args[0])
		if !base.IsFalse() {
			var val *smt.Term
			if a.Args[2].S.K == smt.KArray {
				val = x.eqStores(a.Args[2], b.Args[2])
			} else {
				val = B.Eq(a.Args[2], b.Args[2])
			}
			return B.And(base, B.Eq(a.Args[1], b.Args[1]), val)
		}
	}
	return B.Eq(a, b)
}

func sameLazyShape(a, b *lazyHeap) bool { return sameLazy(a, b) }

func (x *Exec) lazyEq(a, b *lazyHeap) *smt.Term {
	return x.B.Eq(x.lazyTok(a), x.lazyTok(b))
}

// eqLoose compares values structurally; Go-level pointers by location.
func (x *Exec) eqLoose(a, b Value) *smt.Term {
	defer func() {
		if r := recover(); r != nil {
			if _, ok := r.(Unsupported); !ok {
				panic(r)
			}
			panic(Unsupported{"closure result and contract value have different shapes"})
		}
	}()
	return x.eqValue(a, b)
}

type specAlt struct {
	results []Value
	states  []*State
	res     [][]Value
}

// evalStmtSpec interprets a statement schema:
//
//	stmt LHS = RHS        (or LHS op= RHS written as LHS = LHS op RHS)
//
// followed by the trampoline contract: env.IP advances by one and the closure returns
// (env.Code[env.IP], env). Go does not order the load of LHS relative to calls in RHS, so both
// orders are computed and either is accepted.
func (x *Exec) evalStmtSpec(f *Frame, fe *famEnv, c *spec.Clause, st, create *State) *specAlt {
	text := strings.TrimSpace(strings.TrimPrefix(strings.TrimSpace(c.Text), "stmt"))
	eq := topLevelAssign(text)
	if eq < 0 {
		specErr("closure stmt needs 'lvalue = expr': %s", text)
	}
	lhsE, err := spec.ParseExpr(strings.TrimSpace(text[:eq]))
	if err != nil {
		specErr("%v", err)
	}
	rhsE, err := spec.ParseExpr(strings.TrimSpace(text[eq+1:]))
	if err != nil {
		specErr("%v", err)
	}
	// Go orders the calls of a statement but not the resolution of the place's address or the load
	// of its old value relative to them; the three possible orders are all accepted:
	//   0: address, load, calls     1: address, calls, load     2: calls, address, load
	lhsKey := lhsE.String()
	run := func(s *State, order int) []Value {
		fe.memo = map[string]TV{}
		fe.resolved = map[string]*resolved{}
		pl := x.evalPlace(f, fe, lhsE, s, create)
		collect := func() {
			// perform the calls of the right-hand side now (memoised, so that they are not repeated)
			fe.collect = true
			f.eval(rhsE, s, create)
			fe.collect = false
		}
		var rs *resolved
		switch order {
		case 0:
			rs = pl.resolve(s)
			fe.resolved[lhsKey] = rs
		case 1:
			rs = pl.resolve(s)
			fe.resolved[lhsKey] = rs
			collect()
		case 2:
			collect()
			rs = pl.resolve(s)
			fe.resolved[lhsKey] = rs
		}
		v := f.eval(rhsE, s, create)
		fe.memo = map[string]TV{}
		fe.resolved = map[string]*resolved{}
		v = f.coerce(v, pl.typ)
		rs.write(s, v.V)
		return x.trampoline(f, fe, s)
	}
	a := &specAlt{}
	s0 := st
	a.states = append(a.states, s0)
	a.res = append(a.res, run(s0, 0))
	if fe.sawCall {
		for order := 1; order <= 2; order++ {
			s := f.entry.clone()
			a.states = append(a.states, s)
			a.res = append(a.res, run(s, order))
		}
	}
	a.results = a.res[0]
	return a
}

func topLevelAssign(s string) int {
	depth := 0
	for i := 0; i < len(s); i++ {
		switch s[i] {
		case '(', '[':
			depth++
		case ')', ']':
			depth--
		case '=':
			if depth == 0 {
				if i+1 < len(s) && s[i+1] == '=' {
					i++
					continue
				}
				if i > 0 && strings.ContainsRune("!<>=", rune(s[i-1])) {
					continue
				}
				return i
			}
		}
	}
	return -1
}

// trampoline: env.IP++ ; return env.Code[env.IP], env
func (x *Exec) trampoline(f *Frame, fe *famEnv, s *State) []Value {
	B := x.B
	envT := f.fn.Params[0].Type().Underlying().(*types.Pointer).Elem()
	ipP, ipT := x.fieldByName(fe.env, envT, "IP")
	ip := x.load(s, ipP, ipT).(*smt.Term)
	nip := B.BVBin("bvadd", ip, B.BVC(1, 64))
	x.store(s, ipP, ipT, nip)
	codeP, codeT := x.fieldByName(fe.env, envT, "Code")
	code := x.load(s, codeP, codeT)
	arr, off, _, _ := sliceParts(code)
	et := codeT.Underlying().(*types.Slice).Elem()
	p := &Ptr{Arr: arr, Idx: B.IndexAdd(off, nip), Off: off, Rel: nip, Key: "[]" + typeKey(et), Type: et}
	stmt := x.load(s, p, et)
	return []Value{stmt, fe.env}
}

// frameOnlyState builds the state a frame-only closure contract allows:
//
//	modifies L1, L2, ...
//
// the initial heap with, at each listed place (resolved in the initial heap), the value the
// closure left there. Places are variable(v) / boxed(v) / unboxed(v) or plain lvalues over the
// closure's parameters and the compile function's values at creation (env.IP, env.Ints[idx]).
func (x *Exec) frameOnlyState(f *Frame, fe *famEnv, c *spec.Clause, init, final, create *State) *State {
	text := strings.TrimSpace(strings.TrimPrefix(strings.TrimSpace(c.Text), "modifies"))
	fe.inSpec = true
	defer func() { fe.inSpec = false }()
	for _, part := range splitTopComma(text) {
		// "L if cond": the place is listed only on creation paths where cond (an expression of the
		// compile function, evaluated at creation) holds
		if k := strings.Index(part, " if "); k >= 0 {
			ce, err := spec.ParseExpr(part[k+4:])
			if err != nil {
				specErr("%v", err)
			}
			// (evaluated at the creation point: locals of the compile function are in scope)
			cond := x.simplifyUnder(create.PC, fe.parent.evalBool(ce, create, create))
			if cond.IsFalse() {
				continue
			}
			if !cond.IsTrue() && x.entailed(x.dropQuantified(create.PC), cond) {
				cond = x.B.True()
			}
			if !cond.IsTrue() {
				// not decided by the creation path: the place is NOT granted (the stronger reading;
				// a closure that does write it fails its frame obligation)
				continue
			}
			part = strings.TrimSpace(part[:k])
		}
		e, err := spec.ParseExpr(part)
		if err != nil {
			specErr("%v", err)
		}
		isGhost := false
		if call, ok := e.(*spec.Call); ok {
			if id, ok := call.Fun.(*spec.Ident); ok && (id.Name == "variable" || id.Name == "boxed" || id.Name == "unboxed") {
				isGhost = true
			}
		}
		// a place that cannot be resolved on this creation path (a local of the compile function
		// that is not in scope here, a variable whose kind the path does not fix) is not granted
		func() {
			defer func() {
				if r := recover(); r != nil {
					switch r.(type) {
					case SpecError, Unsupported:
						return
					}
					panic(r)
				}
			}()
			if isGhost {
				fe.memo = map[string]TV{}
				fe.resolved = map[string]*resolved{}
				pl := x.evalPlace(f, fe, e, init, create)
				rs := pl.resolve(init)
				rs.write(init, rs.read(final))
				return
			}
			ptr, t := f.evalAddr(e, init, create)
			x.store(init, ptr, t, x.load(final, ptr, t))
		}()
	}
	return init
}

// evalJumpSpec interprets a control-transfer schema:
//
//	jump N, P
//
// the closure leaves N frames (o = up(env, N)), sets o.IP to the integer P points to *when the
// closure runs* (jump targets are patched after the closure is created) and returns
// (o.Code[o.IP], o). N and P are expressions of the compile function, evaluated at creation.
func (x *Exec) evalJumpSpec(f *Frame, fe *famEnv, c *spec.Clause, st, create *State) *specAlt {
	B := x.B
	text := strings.TrimSpace(strings.TrimPrefix(strings.TrimSpace(c.Text), "jump"))
	parts := splitTopComma(text)
	if len(parts) != 2 {
		specErr("closure jump N, P: %s", text)
	}
	nE, err := spec.ParseExpr(parts[0])
	if err != nil {
		specErr("%v", err)
	}
	pE, err := spec.ParseExpr(parts[1])
	if err != nil {
		specErr("%v", err)
	}
	par := fe.parent
	n := par.asInt64(par.coerce(fe.atCreation(nE), types.Typ[types.Int]))
	n = x.simplifyUnder(create.PC, n)
	ptr := fe.atCreation(pE)
	pt, ok := ptr.T.Underlying().(*types.Pointer)
	if !ok {
		specErr("closure jump: %s is not a pointer", parts[1])
	}
	envPT := f.fn.Params[0].Type()
	envT := envPT.Underlying().(*types.Pointer).Elem()
	o := x.upTerm(st, fe.env, n, envT)
	if !n.IsConst() {
		fe.specFrame = o
	}
	target := x.load(st, ptr.V, pt.Elem()).(*smt.Term)
	ipP, ipT := x.fieldByName(o, envT, "IP")
	x.store(st, ipP, ipT, target)
	codeP, codeT := x.fieldByName(o, envT, "Code")
	code := x.load(st, codeP, codeT)
	arr, off, _, _ := sliceParts(code)
	et := codeT.Underlying().(*types.Slice).Elem()
	p := &Ptr{Arr: arr, Idx: B.IndexAdd(off, target), Off: off, Rel: target, Key: "[]" + typeKey(et), Type: et}
	stmt := x.load(st, p, et)
	a := &specAlt{}
	a.states = append(a.states, st)
	a.res = append(a.res, []Value{stmt, o})
	a.results = a.res[0]
	return a
}

func splitTopComma(s string) []string {
	var out []string
	depth, start := 0, 0
	for i, ch := range s {
		switch ch {
		case '(', '[':
			depth++
		case ')', ']':
			depth--
		case ',':
			if depth == 0 {
				out = append(out, strings.TrimSpace(s[start:i]))
				start = i + 1
			}
		}
	}
	return append(out, strings.TrimSpace(s[start:]))
}

// place is an assignable location of the contract language.
type place struct {
	typ     types.Type
	resolve func(s *State) *resolved // address resolution (frame walk, slice header / boxed handle) in state s
}

// resolved is a place whose address has been computed; reads and writes may happen in later states.
type resolved struct {
	read  func(s *State) Value
	write func(s *State, v Value)
}

// evalPlace evaluates an lvalue ghost expression: variable(va) or deref(place-expression).
func (x *Exec) evalPlace(f *Frame, fe *famEnv, e spec.Expr, st, create *State) *place {
	if c, ok := e.(*spec.Call); ok {
		if id, ok := c.Fun.(*spec.Ident); ok {
			switch id.Name {
			case "variable":
				return x.variablePlace(f, fe, c.Args, st, create, "")
			case "boxed":
				return x.variablePlace(f, fe, c.Args, st, create, "boxed")
			case "unboxed":
				return x.variablePlace(f, fe, c.Args, st, create, "unboxed")
			}
		}
	}
	specErr("not an assignable ghost location: %s", e)
	return nil
}

// frameOf gives the frame `upn` levels above env (at run time), for a compile-time upn.
// depthT is the compile-time depth of the closure's scope; by the environment invariant
// env.FileEnv is the frame at distance depth-1 and env.FileEnv.Outer the one at distance depth.
func (x *Exec) frameOf(fe *famEnv, st *State, upn, depthT *smt.Term) *smt.Term {
	B := x.B
	envT := fe.envType()
	su := envT.Underlying().(*types.Struct)
	outer := func(r *smt.Term) *smt.Term {
		p := x.fieldAddr(r, envT, findField(su, "Outer")[0])
		return x.load(st, p, types.NewPointer(envT)).(*smt.Term)
	}
	if c, ok := fe.pinned(upn); ok {
		n := c.SignedVal()
		if n >= 0 && n <= 3 {
			r := fe.env
			for i := int64(0); i < n; i++ {
				r = outer(r)
			}
			return r
		}
	}
	if depthT != nil {
		fileEnv := func() *smt.Term {
			p := x.fieldAddr(fe.env, envT, findField(su, "FileEnv")[0])
			return x.load(st, p, types.NewPointer(envT)).(*smt.Term)
		}
		dm1 := B.BVBin("bvadd", depthT, B.BVC(^uint64(0), 64))
		if v, ok := fe.truth(B.Eq(upn, dm1)); ok && v {
			x.note("environment invariant (assumed for closures): env.FileEnv is the frame at distance depth-1, env.FileEnv.Outer the one at distance depth")
			return fileEnv()
		}
		if v, ok := fe.truth(B.Eq(upn, depthT)); ok && v {
			x.note("environment invariant (assumed for closures): env.FileEnv is the frame at distance depth-1, env.FileEnv.Outer the one at distance depth")
			return outer(fileEnv())
		}
	}
	fr := x.upTerm(st, fe.env, upn, envT)
	if fe.specFrame == nil {
		fe.specFrame = fr
	}
	return fr
}

func (fe *famEnv) envType() types.Type {
	for fr := fe.parent; fr != nil; fr = fr.caller {
		if p := fr.pkg(); p != nil {
			if tn, ok := p.Members["Env"].(*ssa.Type); ok {
				return tn.Type()
			}
		}
	}
	specErr("type Env not found")
	return nil
}

// upTerm is the ghost function up(env, n) over the current Outer field, with its defining
// equations instantiated three levels deep at this n.
func (x *Exec) upTerm(st *State, env, n *smt.Term, envT types.Type) *smt.Term {
	B := x.B
	key := typeKey(envT) + ".Outer"
	outerArr := x.heapGet(st, key, smt.Array(RefS, RefS))
	up := func(k *smt.Term) *smt.Term { return B.UF("up", RefS, outerArr, env, k) }
	zero := B.BVC(0, 64)
	x.assumeGlobal(B.Eq(up(zero), env))
	// leaving a non-positive number of frames leaves none (the loops in the code do not run)
	x.assumeGlobal(B.Implies(B.BVCmp("bvsle", n, zero), B.Eq(up(n), env)))
	cur := n
	for i := 0; i < 3; i++ {
		prev := B.BVBin("bvadd", cur, B.BVC(^uint64(0), 64))
		x.assumeGlobal(B.Implies(B.BVCmp("bvslt", zero, cur), B.Eq(up(cur), B.Select(outerArr, up(prev)))))
		cur = prev
	}
	return up(n)
}

// variablePlace: variable(v [, depth]) is the storage of the compile-time variable v (a *Var,
// *Symbol or *Bind): slot[kind(v.Type)](up(env, v.Upn), v.Desc.Class(), v.Desc.Index()).
func (x *Exec) variablePlace(f *Frame, fe *famEnv, args []spec.Expr, st, create *State, force string) *place {
	B := x.B
	if len(args) < 1 {
		specErr("variable(v [, depth])")
	}
	par := fe.parent
	v := fe.atCreation(args[0])
	var depthT *smt.Term
	if len(args) > 1 {
		depthT = par.asInt64(fe.atCreation(args[1]))
	}
	sc, si := par.cur, par.curIdx
	par.cur, par.curIdx = nil, 0
	defer func() { par.cur, par.curIdx = sc, si }()
	vt := v.T
	if pt, ok := vt.Underlying().(*types.Pointer); ok {
		vt = pt.Elem()
	}
	su, ok := vt.Underlying().(*types.Struct)
	if !ok {
		specErr("variable(): %s is not a variable descriptor", args[0])
	}
	get := func(name string) TV { return par.selectField(v, name, create) }
	upn := B.BVC(0, 64)
	if findField(su, "Upn") != nil {
		upn = par.asInt64(get("Upn"))
	}
	desc := get("Desc")
	descT := desc.V.(*smt.Term)
	// BindDescriptor: class = desc & 7 ... use the package's own pure methods
	class := par.callMethod(desc, "Class", create)
	index := par.asInt64(par.callMethod(desc, "Index", create))
	_ = descT
	typ := get("Type")
	kindT := x.kindOfXType(par, typ, create)
	kc, kindKnown := fe.pinned(kindT)
	var k uint64
	var gt types.Type
	if kindKnown {
		k = kc.Val
		gt = KindType(k)
	}
	envT := fe.envType()
	// storage class
	var intBind bool
	switch force {
	case "boxed":
		intBind = false
	case "unboxed":
		intBind = true
	default:
		var okc bool
		intBind, okc = x.classIsInt(par, fe, class)
		if !okc && kindKnown && k == kString {
			// strings are never stored unboxed
			x.note("variables of non-basic kinds are never stored unboxed (assumed: Comp.NewBind gives IntBind only to the 16 numeric/bool kinds)")
			okc, intBind = true, false
		}
		if !okc && gt != nil {
			specErr("the storage class of %s is not determined on this path", args[0])
		}
	}
	if gt == nil {
		// a kind outside the 17 optimised ones (or not selected on this path): such variables are
		// always boxed and the variable is the reflect.Value itself
		if intBind && force == "unboxed" {
			specErr("unboxed variable %s of a non-basic kind", args[0])
		}
		if intBind {
			x.note("variables of non-basic kinds are never stored unboxed (assumed: Comp.NewBind gives IntBind only to the 16 numeric/bool kinds)")
		}
		_, sliceT := x.fieldByName(fe.env, envT, "Vals")
		elemT := sliceT.Underlying().(*types.Slice).Elem()
		return &place{typ: elemT, resolve: func(s *State) *resolved {
			frame := x.frameOf(fe, s, upn, depthT)
			fp, _ := x.fieldByName(frame, envT, "Vals")
			sl := x.load(s, fp, sliceT)
			arr, off, _, _ := sliceParts(sl)
			p := &Ptr{Arr: arr, Idx: B.IndexAdd(off, index), Off: off, Rel: index, Key: "[]" + typeKey(elemT), Type: elemT}
			return &resolved{
				read:  func(s2 *State) Value { return x.load(s2, p, elemT) },
				write: func(s2 *State, v Value) { x.store(s2, p, elemT, v) }}
		}}
	}
	if intBind {
		_, sliceT := x.fieldByName(fe.env, envT, "Ints")
		elemT := sliceT.Underlying().(*types.Slice).Elem()
		return &place{typ: gt, resolve: func(s *State) *resolved {
			frame := x.frameOf(fe, s, upn, depthT)
			fp, _ := x.fieldByName(frame, envT, "Ints")
			sl := x.load(s, fp, sliceT)
			arr, off, _, _ := sliceParts(sl)
			p := &Ptr{Arr: arr, Idx: B.IndexAdd(off, index), Off: off, Rel: index, Key: "[]" + typeKey(elemT), Type: elemT, View: gt}
			return &resolved{
				read:  func(s2 *State) Value { return x.load(s2, p, gt) },
				write: func(s2 *State, v Value) { x.store(s2, p, gt, v) }}
		}}
	}
	// boxed: env.Vals[index] is a settable reflect.Value whose cell has the variable's kind
	_, sliceT := x.fieldByName(fe.env, envT, "Vals")
	elemT := sliceT.Underlying().(*types.Slice).Elem()
	x.note("boxed variables: the reflect.Value stored in env.Vals[i] denotes a cell of the variable's static kind (assumed)")
	return &place{typ: gt, resolve: func(s *State) *resolved {
		frame := x.frameOf(fe, s, upn, depthT)
		fp, _ := x.fieldByName(frame, envT, "Vals")
		sl := x.load(s, fp, sliceT)
		arr, off, _, _ := sliceParts(sl)
		p := &Ptr{Arr: arr, Idx: B.IndexAdd(off, index), Off: off, Rel: index, Key: "[]" + typeKey(elemT), Type: elemT}
		r := rvOf(x.load(s, p, elemT))
		x.assumeGlobal(B.Eq(x.rkind(r), B.BVC(k, 64)))
		return &resolved{
			read:  func(s2 *State) Value { return x.cellRead(s2, r, k) },
			write: func(s2 *State, v Value) { x.cellWrite(s2, r, k, v) }}
	}}
}

// cellRead / cellWrite: the K-typed view of a boxed cell.
func (x *Exec) cellRead(s *State, r *smt.Term, k uint64) Value {
	B := x.B
	t := KindType(k).(*types.Basic)
	switch kindCategory(k) {
	case "bool":
		return B.Select(x.rcell(s, "bool", smt.Bool), r)
	case "int":
		c := B.Select(x.rcell(s, "int", I64), r)
		w := basicSort(t).W
		// a cell of a narrow integer kind holds a value of that kind (reflect's accessor extends it)
		x.assumeGlobal(B.Eq(c, B.SignExt(64-w, B.Extract(w-1, 0, c))))
		return B.Extract(w-1, 0, c)
	case "uint":
		c := B.Select(x.rcell(s, "uint", I64), r)
		w := basicSort(t).W
		x.assumeGlobal(B.Eq(c, B.ZeroExt(64-w, B.Extract(w-1, 0, c))))
		return B.Extract(w-1, 0, c)
	case "float":
		c := B.Select(x.rcell(s, "float", smt.FP64), r)
		if k == kFloat32 {
			// a float32 cell holds a binary32 value (reflect's accessor widens it exactly)
			x.assumeGlobal(B.Eq(c, B.FPConv(B.FPConv(c, smt.FP32), smt.FP64)))
		}
		return B.FPConv(c, basicSort(t))
	case "complex":
		fs := smt.FP64
		re, im := B.Select(x.rcell(s, "cre", smt.FP64), r), B.Select(x.rcell(s, "cim", smt.FP64), r)
		if k == kComplex64 {
			fs = smt.FP32
			x.assumeGlobal(B.Eq(re, B.FPConv(B.FPConv(re, smt.FP32), smt.FP64)))
			x.assumeGlobal(B.Eq(im, B.FPConv(B.FPConv(im, smt.FP32), smt.FP64)))
		}
		return &Struct{[]Value{B.FPConv(re, fs), B.FPConv(im, fs)}}
	case "str":
		return B.Select(x.rcell(s, "str", StrS), r)
	}
	specErr("cell of kind %d", k)
	return nil
}

func (x *Exec) cellWrite(s *State, r *smt.Term, k uint64, v Value) {
	B := x.B
	t := KindType(k).(*types.Basic)
	switch kindCategory(k) {
	case "bool":
		x.heapSet(s, "rcell#bool", B.Store(x.rcell(s, "bool", smt.Bool), r, v.(*smt.Term)))
	case "int":
		x.heapSet(s, "rcell#int", B.Store(x.rcell(s, "int", I64), r, B.SignExt(64-basicSort(t).W, v.(*smt.Term))))
	case "uint":
		x.heapSet(s, "rcell#uint", B.Store(x.rcell(s, "uint", I64), r, B.ZeroExt(64-basicSort(t).W, v.(*smt.Term))))
	case "float":
		x.heapSet(s, "rcell#float", B.Store(x.rcell(s, "float", smt.FP64), r, B.FPConv(v.(*smt.Term), smt.FP64)))
	case "complex":
		c := v.(*Struct)
		x.heapSet(s, "rcell#cre", B.Store(x.rcell(s, "cre", smt.FP64), r, B.FPConv(c.Fields[0].(*smt.Term), smt.FP64)))
		x.heapSet(s, "rcell#cim", B.Store(x.rcell(s, "cim", smt.FP64), r, B.FPConv(c.Fields[1].(*smt.Term), smt.FP64)))
	case "str":
		x.heapSet(s, "rcell#str", B.Store(x.rcell(s, "str", StrS), r, v.(*smt.Term)))
	default:
		specErr("cell of kind %d", k)
	}
}

// classIsInt decides whether the storage class term is IntBind on this path.
func (x *Exec) classIsInt(par *Frame, fe *famEnv, class TV) (bool, bool) {
	B := x.B
	ct := class.V.(*smt.Term)
	var intBind *smt.Term
	if p := par.pkg(); p != nil {
		if c, ok := p.Members["IntBind"].(*ssa.NamedConst); ok {
			intBind = x.constValue(c.Value).(*smt.Term)
		}
	}
	if intBind == nil {
		specErr("constant IntBind not found")
	}
	if c, ok := fe.pinned(ct); ok {
		return c.Val == intBind.Val, true
	}
	if v, ok := fe.truth(B.Eq(ct, intBind)); ok {
		return v, true
	}
	return false, false
}

// callMethod calls a pure method of the package on a value.
func (f *Frame) callMethod(recv TV, name string, st *State) TV {
	x := f.x
	ms := x.Prog.MethodSets.MethodSet(recv.T)
	for i := 0; i < ms.Len(); i++ {
		if ms.At(i).Obj().Name() == name {
			fn := x.Prog.MethodValue(ms.At(i))
			return f.callPure(fn, nil, []Value{recv.V}, st)
		}
	}
	specErr("type %s has no method %s", recv.T, name)
	return TV{}
}

// kindOfXType: t.Kind() for an xreflect.Type value (a pure getter).
func (x *Exec) kindOfXType(f *Frame, t TV, st *State) *smt.Term {
	return x.xtypeKind(t.V)
}

// xtypeKind: xreflect.Type is a function type whose values stand for types; Kind() is modelled as a
// pure function of that value.
func (x *Exec) xtypeKind(v Value) *smt.Term {
	x.note("library spec: xreflect.Type.Kind() is a pure function of the type value")
	if s, ok := v.(*Struct); ok {
		return x.B.UF("xtype_kind2", I64, s.Fields[0].(*smt.Term), x.scalar(s.Fields[1], nil))
	}
	return x.B.UF("xtype_kind", I64, x.scalar(v, nil))
}

// dropQuantified removes the top-level conjuncts of pc that contain a quantifier.
func (x *Exec) dropQuantified(pc *smt.Term) *smt.Term {
	memo := map[int]bool{}
	var has func(t *smt.Term) bool
	has = func(t *smt.Term) bool {
		if v, ok := memo[t.ID]; ok {
			return v
		}
		r := t.Op == "forall" || t.Op == "exists"
		for _, a := range t.Args {
			if r {
				break
			}
			r = has(a)
		}
		memo[t.ID] = r
		return r
	}
	var keep []*smt.Term
	for _, c := range conjuncts(pc) {
		if !has(c) {
			keep = append(keep, c)
		}
	}
	return x.B.And(keep...)
}

// checkAlias: the compile function returned its own parameter p (an *Expr) on this path. The
// contract's semantic equation must then hold with operand(p) as the denotation of the result:
// for every kind the path allows and every run-time state, evaluating the contract expression and
// evaluating operand(p) give the same value, the same calls and the same heap.
func (x *Exec) checkAlias(sp *spec.FuncSpec, par *Frame, r exitRec, p *ssa.Parameter, n int) {
	B := x.B
	// the clause that applies on this path: the first "closure expr E if cond" whose condition (over
	// the compile function's values at the return) holds, or an unconditional one
	var e spec.Expr
	for _, c := range sp.Of("closure") {
		w := strings.Fields(c.Text)
		if len(w) == 0 || w[0] != "expr" {
			continue
		}
		txt := strings.TrimSpace(strings.TrimPrefix(strings.TrimSpace(c.Text), "expr"))
		if k := strings.LastIndex(txt, " if "); k >= 0 {
			ce, err := spec.ParseExpr(txt[k+4:])
			if err != nil {
				specErr("%v", err)
			}
			sc, si := par.cur, par.curIdx
			par.cur, par.curIdx = nil, 0
			cond := x.simplifyUnder(r.st.PC, par.evalBool(ce, r.st, r.st))
			par.cur, par.curIdx = sc, si
			if !(cond.IsTrue() || (!cond.IsFalse() && x.entailed(x.dropQuantified(r.st.PC), cond))) {
				continue
			}
			txt = txt[:k]
		}
		pe, err := spec.ParseExpr(txt)
		if err != nil {
			specErr("%v", err)
		}
		e = pe
		break
	}
	if e == nil {
		specErr("alias return of %s: no 'closure expr' clause of the contract applies on this path", p.Name())
	}
	aliasE, _ := spec.ParseExpr("operand(" + p.Name() + ")")
	par.cur, par.curIdx = nil, 0
	if r.blk != nil {
		// locals of the compile function named by the clause are the ones in scope at this return
		par.cur, par.curIdx = r.blk, len(r.blk.Instrs)-1
	}
	pv := TV{par.regs[p], p.Type()}
	typ := par.selectField(pv, "Type", r.st)
	kt := x.kindOfXType(par, typ, r.st)
	for k := uint64(kBool); k <= kString; k++ {
		if KindType(k) == nil {
			continue
		}
		create := r.st.clone()
		create.PC = B.And(r.st.PC, B.Eq(kt, B.BVC(k, kt.S.W)))
		facts, pins := propagate(create.PC)
		if facts[-1] || create.PC.IsFalse() {
			continue
		}
		if x.entailed(x.dropQuantified(create.PC), B.False()) {
			continue // this kind cannot reach the return (decided by the solver)
		}
		x.prefix = QualName(par.fn)
		x.sig = fmt.Sprintf("alias%d:%s,k=%s", n, p.Name(), kindNames[k])
		x.famN++
		run := x.newState()
		run.lazy = &lazyHeap{base: B.Var(fmt.Sprintf("rtok%d", x.famN), RefS)}
		run.PC = x.dropQuantified(create.PC)
		fe := &famEnv{x: x, parent: par, create: create, facts: facts, pins: pins, memo: map[string]TV{}}
		fe.env = B.Var(fmt.Sprintf("env%d", x.famN), RefS)
		run.PC = B.And(run.PC, B.Neq(fe.env, B.IntC(0)))
		x.fam = fe
		nAssume := len(x.assumes)
		func() {
			defer func() {
				x.fam = nil
				x.assumes = x.assumes[:nAssume]
				if rr := recover(); rr != nil {
					var msg string
					switch e := rr.(type) {
					case Unsupported:
						msg = e.Error()
					case SpecError:
						msg = e.Error()
					default:
						panic(rr)
					}
					x.NoObl = 0
					x.oblige("closure-not-analysable", msg, r.where, x.newState(), x.B.False())
				}
			}()
			mk := func() *Frame {
				sf := x.newFrame(par.fn, nil)
				sf.regs = par.regs
				sf.outer = par
				sf.entry = run
				return sf
			}
			x.NoObl++
			specSt := run.clone()
			var want TV
			undefined := ""
			func() {
				defer func() {
					if r := recover(); r != nil {
						if se, ok := r.(SpecError); ok && (strings.Contains(se.Error(), "not defined on") || strings.Contains(se.Error(), "on complex") || strings.Contains(se.Error(), "on composite")) {
							undefined = se.Error()
							return
						}
						panic(r)
					}
				}()
				want = mk().eval(e, specSt, create)
			}()
			if undefined != "" {
				// the operator does not exist in this kind: not a Go program, nothing to prove
				x.NoObl--
				x.note("alias returns: kinds for which Go does not define the operator are skipped (the property is about programs Go accepts)")
				return
			}
			fe.memo = map[string]TV{}
			gotSt := run.clone()
			got := mk().eval(aliasE, gotSt, create)
			x.NoObl--
			goal := x.sameOutcome(exitRec{st: gotSt, results: []Value{got.V}}, []Value{want.V}, specSt)
			goal = x.simplifyUnder(run.PC, goal)
			x.oblige("alias", "returning "+p.Name()+" satisfies: expr "+e.String(), r.where, run, goal)
		}()
	}
}

// checkDelegated: the compile function returned what another compile function (with a family
// contract of its own) returned. By that contract the result denotes the callee's semantic
// equation over the callee's arguments; it must agree with this function's equation.
func (x *Exec) checkDelegated(sp *spec.FuncSpec, par *Frame, r exitRec, callee *ssa.Function, args []Value, n int) {
	B := x.B
	clauseOf := func(s *spec.FuncSpec) (*spec.Clause, spec.Expr) {
		for _, c := range s.Of("closure") {
			if w := strings.Fields(c.Text); len(w) > 0 && w[0] == "expr" {
				e, err := spec.ParseExpr(strings.TrimSpace(strings.TrimPrefix(strings.TrimSpace(c.Text), "expr")))
				if err != nil {
					specErr("%v", err)
				}
				return c, e
			}
		}
		return nil, nil
	}
	exprC, e := clauseOf(sp)
	csp := x.specFor(callee)
	calleeC, ce := clauseOf(csp)
	if exprC == nil && calleeC == nil && stmtClause(sp) != nil && stmtClause(csp) != nil {
		x.checkStmtReturn(sp, par, r, callee, args, fmt.Sprintf("deleg%d:%s", n, callee.Name()))
		return
	}
	if exprC == nil || calleeC == nil {
		specErr("delegated return to %s: both contracts need a 'closure expr' clause", FuncName(callee))
	}
	// the callee's frame: its parameters are the actual arguments
	cpar := x.newFrame(callee, nil)
	for i, p := range callee.Params {
		if i < len(args) {
			cpar.regs[p] = args[i]
		}
	}
	// the kind is that of the callee's first *Expr argument
	par.cur, par.curIdx = nil, 0
	var kt *smt.Term
	// the kind is that of the callee's first argument that carries a Type (an *Expr, *Bind, *Var ...)
	for i, p := range callee.Params {
		if i >= len(args) || kt != nil {
			continue
		}
		pt, isPtr := p.Type().Underlying().(*types.Pointer)
		if !isPtr {
			continue
		}
		if su, isS := pt.Elem().Underlying().(*types.Struct); !isS || findField(su, "Type") == nil {
			continue
		}
		typ := cpar.selectField(TV{args[i], p.Type()}, "Type", r.st)
		kt = x.kindOfXType(cpar, typ, r.st)
	}
	if kt == nil {
		specErr("delegated return to %s: no argument with a Type", FuncName(callee))
	}
	for k := uint64(kBool); k <= kString; k++ {
		if KindType(k) == nil {
			continue
		}
		create := r.st.clone()
		create.PC = B.And(r.st.PC, B.Eq(kt, B.BVC(k, kt.S.W)))
		facts, pins := propagate(create.PC)
		if facts[-1] || create.PC.IsFalse() {
			continue
		}
		x.prefix = QualName(par.fn)
		x.sig = fmt.Sprintf("deleg%d:%s,k=%s", n, callee.Name(), kindNames[k])
		x.famN++
		run := x.newState()
		run.lazy = &lazyHeap{base: B.Var(fmt.Sprintf("rtok%d", x.famN), RefS)}
		run.PC = x.dropQuantified(create.PC)
		env := B.Var(fmt.Sprintf("env%d", x.famN), RefS)
		run.PC = B.And(run.PC, B.Neq(env, B.IntC(0)))
		nAssume := len(x.assumes)
		func() {
			defer func() {
				x.fam = nil
				x.assumes = x.assumes[:nAssume]
				if rr := recover(); rr != nil {
					var msg string
					switch e := rr.(type) {
					case Unsupported:
						msg = e.Error()
					case SpecError:
						msg = e.Error()
					default:
						panic(rr)
					}
					x.NoObl = 0
					x.oblige("closure-not-analysable", msg, r.where, x.newState(), x.B.False())
				}
			}()
			evalIn := func(owner *Frame, ex spec.Expr, st *State) (tv TV, undefined string) {
				fe := &famEnv{x: x, parent: owner, create: create, facts: facts, pins: pins, memo: map[string]TV{}, env: env}
				x.fam = fe
				sf := x.newFrame(owner.fn, nil)
				sf.regs = owner.regs
				sf.outer = owner
				sf.entry = run
				defer func() {
					if rr := recover(); rr != nil {
						if se, ok := rr.(SpecError); ok && (strings.Contains(se.Error(), "not defined on") || strings.Contains(se.Error(), "on complex") || strings.Contains(se.Error(), "on composite") || strings.Contains(se.Error(), "literal")) {
							undefined = se.Error()
							return
						}
						if ue, ok := rr.(Unsupported); ok && strings.Contains(ue.Error(), "unsafe view as") {
							// a kind without an unboxed representation (strings are never stored in Env.Ints)
							undefined = ue.Error()
							return
						}
						panic(rr)
					}
				}()
				return sf.eval(ex, st, create), ""
			}
			x.NoObl++
			specSt := run.clone()
			want, u1 := evalIn(par, e, specSt)
			gotSt := run.clone()
			got, u2 := evalIn(cpar, ce, gotSt)
			x.NoObl--
			if u1 != "" || u2 != "" {
				x.note("alias returns: kinds for which Go does not define the operator are skipped (the property is about programs Go accepts)")
				return
			}
			// the callee's contract speaks only about closures created under its own
			// "closure requires": they must hold here
			for _, rc := range csp.Of("closure") {
				w := strings.Fields(rc.Text)
				if len(w) == 0 || w[0] != "requires" {
					continue
				}
				re, err := spec.ParseExpr(strings.TrimSpace(strings.TrimPrefix(strings.TrimSpace(rc.Text), "requires")))
				if err != nil {
					specErr("%v", err)
				}
				// evaluated over the callee's locals at its closure creation points: here only its
				// parameters and what is computed from them are available; locals named k are the kind
				cf := x.newFrame(callee, nil)
				cf.regs = cpar.regs
				cf.overTV["k"] = TV{B.BVC(k, 64), nil}
				x.NoObl++
				g := x.simplifyUnder(create.PC, cf.evalBool(re, create, create))
				x.NoObl--
				x.oblige("delegated-requires", FuncName(callee)+" is only specified for: "+rc.Text, r.where, run, g)
			}
			goal := x.sameOutcome(exitRec{st: gotSt, results: []Value{got.V}}, []Value{want.V}, specSt)
			goal = x.simplifyUnder(run.PC, goal)
			x.oblige("delegated", "returning the result of "+FuncName(callee)+" ("+calleeC.Text+") satisfies: "+exprC.Text, r.where, run, goal)
		}()
	}
}

// splitClause parses "closure split NAME in LO..HI".
func splitClause(sp *spec.FuncSpec) (name string, lo, hi int, ok bool) {
	for _, c := range sp.Of("closure") {
		w := strings.Fields(c.Text)
		if len(w) == 4 && w[0] == "split" && w[2] == "in" {
			if _, err := fmt.Sscanf(w[3], "%d..%d", &lo, &hi); err == nil {
				return w[1], lo, hi, true
			}
		}
		// "split NAME pow2": NAME ranges over the 64 powers of two (exhaustiveness is an obligation)
		if len(w) == 3 && w[0] == "split" && w[2] == "pow2" {
			return w[1], -1, -1, true
		}
	}
	return "", 0, 0, false
}

// propagatePin: the constant the path condition pins t to, if any.
func propagatePin(pc, t *smt.Term) (*smt.Term, bool) {
	_, pins := propagate(pc)
	c, ok := pins[t.ID]
	return c, ok
}

func stmtClause(sp *spec.FuncSpec) *spec.Clause {
	for _, c := range sp.Of("closure") {
		if w := strings.Fields(c.Text); len(w) > 0 && w[0] == "stmt" {
			return c
		}
	}
	return nil
}

// checkStmtReturn: a statement compile function under a "closure stmt" contract returned nil (the
// statement is compiled to nothing: callee == nil) or what another statement compile function
// returned. Then, for every kind and storage class of the variable and every run-time state, the
// contract's assignment must have the effect of doing nothing, resp. of the callee's assignment.
func (x *Exec) checkStmtReturn(sp *spec.FuncSpec, par *Frame, r exitRec, callee *ssa.Function, args []Value, sigBase string) {
	B := x.B
	stmtC := stmtClause(sp)
	if stmtC == nil {
		specErr("statement return: the contract has no 'closure stmt' clause")
	}
	var calleeC *spec.Clause
	var cpar *Frame
	if callee != nil {
		calleeC = stmtClause(x.specFor(callee))
		cpar = x.newFrame(callee, nil)
		for i, p := range callee.Params {
			if i < len(args) {
				cpar.regs[p] = args[i]
			}
		}
	}
	// a closure of the function gives the shape of the statement (its env parameter)
	var tmpl *ssa.Function
	for _, a := range par.fn.AnonFuncs {
		if len(a.Params) == 1 && a.Signature.Results().Len() == 2 {
			tmpl = a
			break
		}
	}
	if tmpl == nil {
		specErr("statement return: %s creates no statement closure to take the shape from", FuncName(par.fn))
	}
	// the variable: the first parameter that is a *Var
	var vp *ssa.Parameter
	for _, p := range par.fn.Params {
		if pt, ok := p.Type().Underlying().(*types.Pointer); ok {
			if su, ok := pt.Elem().Underlying().(*types.Struct); ok && findField(su, "Desc") != nil && findField(su, "Type") != nil {
				vp = p
				break
			}
		}
	}
	if vp == nil {
		specErr("statement return: no variable parameter")
	}
	par.cur, par.curIdx = nil, 0
	pv := TV{par.regs[vp], vp.Type()}
	kt := x.kindOfXType(par, par.selectField(pv, "Type", r.st), r.st)
	classT := par.callMethod(par.selectField(pv, "Desc", r.st), "Class", r.st).V.(*smt.Term)
	var intBind, varBind uint64 = 0, 0
	if p := par.pkg(); p != nil {
		if c, ok := p.Members["IntBind"].(*ssa.NamedConst); ok {
			intBind = x.constValue(c.Value).(*smt.Term).Val
		}
		if c, ok := p.Members["VarBind"].(*ssa.NamedConst); ok {
			varBind = x.constValue(c.Value).(*smt.Term).Val
		}
	}
	for k := uint64(kBool); k <= kString; k++ {
		if KindType(k) == nil {
			continue
		}
		for _, cls := range []uint64{intBind, varBind} {
			if cls == intBind && k == kString {
				continue // strings are never stored unboxed
			}
			create := r.st.clone()
			create.PC = B.And(r.st.PC, B.Eq(kt, B.BVC(k, kt.S.W)), B.Eq(classT, B.BVC(cls, classT.S.W)))
			facts, pins := propagate(create.PC)
			if facts[-1] || create.PC.IsFalse() {
				continue
			}
			x.prefix = QualName(par.fn)
			clsName := "boxed"
			if cls == intBind {
				clsName = "slot"
			}
			x.sig = fmt.Sprintf("%s,k=%s,%s", sigBase, kindNames[k], clsName)
			x.famN++
			run := x.newState()
			run.lazy = &lazyHeap{base: B.Var(fmt.Sprintf("rtok%d", x.famN), RefS)}
			run.PC = x.dropQuantified(create.PC)
			env := B.Var(fmt.Sprintf("env%d", x.famN), RefS)
			run.PC = B.And(run.PC, B.Neq(env, B.IntC(0)))
			nAssume := len(x.assumes)
			func() {
				defer func() {
					x.fam = nil
					x.assumes = x.assumes[:nAssume]
					if rr := recover(); rr != nil {
						var msg string
						switch e := rr.(type) {
						case Unsupported:
							msg = e.Error()
						case SpecError:
							msg = e.Error()
						default:
							panic(rr)
						}
						x.NoObl = 0
						if strings.Contains(msg, "not defined on") || strings.Contains(msg, "on complex") || strings.Contains(msg, "on composite") || strings.Contains(msg, "unsafe view as") {
							x.note("alias returns: kinds for which Go does not define the operator are skipped (the property is about programs Go accepts)")
							return
						}
						x.oblige("closure-not-analysable", msg, r.where, x.newState(), x.B.False())
					}
				}()
				evalIn := func(owner *Frame, c *spec.Clause, st *State) *specAlt {
					fe := &famEnv{x: x, parent: owner, create: create, facts: facts, pins: pins, memo: map[string]TV{}, env: env}
					x.fam = fe
					sf := x.newFrame(tmpl, nil)
					sf.regs[tmpl.Params[0]] = env
					sf.outer = owner
					sf.entry = run
					return x.evalStmtSpec(sf, fe, c, st, create)
				}
				x.NoObl++
				wantSt := run.clone()
				want := evalIn(par, stmtC, wantSt)
				var got *specAlt
				gotSt := run.clone()
				if callee != nil {
					got = evalIn(cpar, calleeC, gotSt)
				} else {
					// nothing happens; for the comparison the trampoline step is applied here too
					fe := &famEnv{x: x, parent: par, create: create, facts: facts, pins: pins, memo: map[string]TV{}, env: env}
					x.fam = fe
					sf := x.newFrame(tmpl, nil)
					sf.regs[tmpl.Params[0]] = env
					got = &specAlt{states: []*State{gotSt}, res: [][]Value{x.trampoline(sf, fe, gotSt)}}
				}
				x.NoObl--
				goal := x.sameOutcome(exitRec{st: got.states[0], results: got.res[0]}, want.res[0], want.states[0])
				goal = x.simplifyUnder(run.PC, goal)
				what := "compiling the statement to nothing"
				if callee != nil {
					what = "returning the result of " + FuncName(callee) + " (" + calleeC.Text + ")"
				}
				x.oblige("stmt-return", what+" satisfies: "+stmtC.Text, r.where, run, goal)
			}()
		}
	}
}
