package sym

import (
	"fmt"
	"go/types"
	"strings"
	"sync"

	"golang.org/x/tools/go/ssa"
	"golang.org/x/tools/go/ssa/ssautil"

	"gowp/smt"
)

// Initial values of package variables ("//@ initial G, H" in the contract file of their package).
//
// A variable named there is read as a constant holding the value its initialiser gives it, provided
// (1) a scan of every function of the program finds no other use of the variable than loads, field
// selections and the stores of the package initialiser (so nothing can write it later, directly or
// through a pointer), and (2) the initialiser stores constants or values of other such variables.
// Both are checked here; a variable that fails either is reported as a contract error.

type initInfo struct {
	done map[string]bool      // package path -> processed
	vals map[string]*smt.Term // heap key (with leaf suffix) -> value
	why  map[string]string    // global key -> reason it could not be used
}

func (x *Exec) initialValue(key string) (*smt.Term, bool) {
	if x.initv == nil || len(x.initv.vals) == 0 {
		return nil, false
	}
	v, ok := x.initv.vals[key]
	return v, ok
}

// prepareInitial processes the "initial" directives of every package that has one (once per Exec).
func (x *Exec) prepareInitial() {
	if x.initv != nil {
		return
	}
	x.initv = &initInfo{done: map[string]bool{}, vals: map[string]*smt.Term{}, why: map[string]string{}}
	for path, db := range x.Specs {
		if len(db.Initial) > 0 {
			x.initialOf(path)
		}
	}
}

var (
	scanMu   sync.Mutex
	scanDone = map[string]string{} // package path -> "" (scan passed) or the reason it failed
	allFns   map[*ssa.Function]bool
)

// rooted: the package variable an address is a field selection of, if any.
func rooted(v ssa.Value) *ssa.Global {
	switch v := v.(type) {
	case *ssa.Global:
		return v
	case *ssa.FieldAddr:
		return rooted(v.X)
	}
	return nil
}

func (x *Exec) scanInitial(want map[*ssa.Global]bool, init *ssa.Function) {
	scanMu.Lock()
	if allFns == nil {
		allFns = ssautil.AllFunctions(x.Prog)
	}
	fns := allFns
	scanMu.Unlock()
	for fn := range fns {
		for _, b := range fn.Blocks {
			for _, ins := range b.Instrs {
				switch ins := ins.(type) {
				case *ssa.Store:
					if g := rooted(ins.Addr); g != nil && want[g] && fn != init {
						specErr("initial %s: written by %s", g.Name(), fn)
					}
					if g := rooted(ins.Val); g != nil && want[g] {
						specErr("initial %s: its address is stored by %s", g.Name(), fn)
					}
				case *ssa.UnOp, *ssa.FieldAddr, *ssa.DebugRef:
					// loads and selections
				default:
					for _, op := range ins.Operands(nil) {
						if op != nil && *op != nil {
							if g := rooted(*op); g != nil && want[g] {
								specErr("initial %s: its address escapes in %s (%T)", g.Name(), fn, ins)
							}
						}
					}
				}
			}
		}
	}
}

func (x *Exec) initialOf(path string) {
	iv := x.initv
	if iv.done[path] {
		return
	}
	iv.done[path] = true
	db := x.Specs[path]
	if db == nil || len(db.Initial) == 0 {
		return
	}
	var pkg *ssa.Package
	for _, p := range x.Prog.AllPackages() {
		if p.Pkg.Path() == path {
			pkg = p
		}
	}
	if pkg == nil {
		return
	}
	want := map[*ssa.Global]bool{}
	for _, n := range db.Initial {
		g, ok := pkg.Members[n].(*ssa.Global)
		if !ok {
			specErr("initial %s: no such package variable in %s", n, path)
		}
		want[g] = true
	}
	// (1) no use outside loads / selections / the initialiser's own stores
	init := pkg.Func("init")
	scanMu.Lock()
	verdict, scanned := scanDone[path]
	scanMu.Unlock()
	if scanned {
		if verdict != "" {
			specErr("%s", verdict)
		}
	} else {
		func() {
			defer func() {
				v := ""
				if r := recover(); r != nil {
					if se, ok := r.(SpecError); ok {
						v = se.Msg
					} else {
						panic(r)
					}
				}
				scanMu.Lock()
				scanDone[path] = v
				scanMu.Unlock()
				if v != "" {
					specErr("%s", v)
				}
			}()
			x.scanInitial(want, init)
		}()
	}
	// (2) the stores of the initialiser
	if init == nil {
		return
	}
	var keyOf func(v ssa.Value) (string, types.Type, bool)
	keyOf = func(v ssa.Value) (string, types.Type, bool) {
		switch v := v.(type) {
		case *ssa.Global:
			t := v.Type().(*types.Pointer).Elem()
			return "glob:" + v.Pkg.Pkg.Path() + "." + v.Name(), t, true
		case *ssa.FieldAddr:
			k, t, ok := keyOf(v.X)
			if !ok {
				return "", nil, false
			}
			st, isS := t.Underlying().(*types.Struct)
			if !isS {
				return "", nil, false
			}
			return k + "." + st.Field(v.Field).Name(), st.Field(v.Field).Type(), true
		}
		return "", nil, false
	}
	var leavesOf func(v ssa.Value, t types.Type) ([]*smt.Term, bool)
	leavesOf = func(v ssa.Value, t types.Type) ([]*smt.Term, bool) {
		switch v := v.(type) {
		case *ssa.Const:
			return x.toLeaves(x.constValue(v), t), true
		case *ssa.UnOp:
			// a load of (a field of) another variable with a known initial value
			if k, kt, ok := keyOf(v.X); ok {
				if g := rooted(v.X); g != nil {
					x.initialOf(g.Pkg.Pkg.Path())
				}
				var out []*smt.Term
				for _, l := range flatten(kt) {
					tv, ok := iv.vals[k+l.Suffix]
					if !ok {
						return nil, false
					}
					out = append(out, tv)
				}
				return out, true
			}
		case *ssa.Convert:
			if c, ok := v.X.(*ssa.Const); ok {
				return x.toLeaves(x.constValue(ssa.NewConst(c.Value, v.Type())), t), true
			}
		}
		return nil, false
	}
	for _, b := range init.Blocks {
		for _, ins := range b.Instrs {
			st, ok := ins.(*ssa.Store)
			if !ok {
				continue
			}
			g := rooted(st.Addr)
			if g == nil || !want[g] {
				continue
			}
			if b != init.Blocks[0] {
				specErr("initial %s: initialised under a condition", g.Name())
			}
			k, t, _ := keyOf(st.Addr)
			ls, ok := leavesOf(st.Val, t)
			if !ok {
				specErr("initial %s: the initialiser stores a value that is neither a constant nor another initial variable (%s)", g.Name(), st.Val)
			}
			for i, l := range flatten(t) {
				iv.vals[k+l.Suffix] = ls[i]
			}
		}
	}
	for g := range want {
		k, t, _ := keyOf(g)
		for _, l := range flatten(t) {
			if _, ok := iv.vals[k+l.Suffix]; !ok {
				// never stored: the zero value
				iv.vals[k+l.Suffix] = x.zeroOf(l.Sort)
			}
		}
		x.note(fmt.Sprintf("package variable %s.%s read as the constant its initialiser stores (no other writer found by a scan of the program)", strings.TrimPrefix(g.Pkg.Pkg.Path(), modulePath+"/"), g.Name()))
	}
}
