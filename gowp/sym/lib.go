package sym

import (
	"fmt"
	"go/types"
	"math"
	"runtime"
	"strconv"
	"strings"

	"golang.org/x/tools/go/ssa"

	"gowp/smt"
)

// ---------- floats

func (x *Exec) floatConst(v float64, s *smt.Sort) *smt.Term {
	if s == smt.FP32 {
		return x.B.FPC(uint64(math.Float32bits(float32(v))), s)
	}
	return x.B.FPC(math.Float64bits(v), s)
}

// ---------- strings: an uninterpreted sort with the order/prefix/length facts below as axioms
// (listed in every evidence file under trusted_base as "string axioms").

func (x *Exec) initLib() {
	x.lib = map[string]*libFn{}
	x.registerLib()
}

func (x *Exec) strConst(s string) *smt.Term {
	if t, ok := x.strs[s]; ok {
		return t
	}
	B := x.B
	t := B.Var("str|"+strconv.Quote(s), StrS)
	for o, ot := range x.strs {
		x.assumeGlobal(B.Neq(t, ot))
		// ground order facts between constants
		if o < s {
			x.assumeGlobal(B.IntOp("<", x.rank(ot), x.rank(t)))
		} else {
			x.assumeGlobal(B.IntOp("<", x.rank(t), x.rank(ot)))
		}
		x.assumeGlobal(B.Eq(x.hasPrefixRaw(t, ot), B.BoolC(strings.HasPrefix(s, o))))
		x.assumeGlobal(B.Eq(x.hasPrefixRaw(ot, t), B.BoolC(strings.HasPrefix(o, s))))
	}
	x.strs[s] = t
	x.assumeGlobal(B.Eq(B.UF("strlen", I64, t), B.BVC(uint64(len(s)), 64)))
	for i := 0; i < len(s) && i < 8; i++ {
		x.assumeGlobal(B.Eq(B.UF("strat", smt.BV(8), t, B.BVC(uint64(i), 64)), B.BVC(uint64(s[i]), 8)))
	}
	return t
}

// strCount: strings.Count as an uninterpreted function with a non-negative result.
func (x *Exec) strCount(s, sub *smt.Term) *smt.Term {
	B := x.B
	c := B.UF("strcount", I64, s, sub)
	x.assumeGlobal(B.BVCmp("bvsge", c, B.BVC(0, 64)))
	return c
}

// rank is an order-embedding of byte strings (lexicographic order) into the open real interval (0,1).
// Such an embedding exists because the strings are a countable total order; under it the strings
// with a given prefix p are exactly those with rank(p) <= rank(s) < prefixub(p).
func (x *Exec) rank(s *smt.Term) *smt.Term { return x.B.UF("strrank", smt.Real, s) }

func (x *Exec) hasPrefixRaw(s, p *smt.Term) *smt.Term { return x.B.UF("hasprefix", smt.Bool, s, p) }

func (x *Exec) strAxioms() {
	if x.strAx {
		return
	}
	x.strAx = true
	B := x.B
	a, p := B.BoundVar("sa", StrS), B.BoundVar("sp", StrS)
	hp := x.hasPrefixRaw
	ln := func(s *smt.Term) *smt.Term { return B.UF("strlen", I64, s) }
	at := func(s, i *smt.Term) *smt.Term { return B.UF("strat", smt.BV(8), s, i) }
	ub := func(s *smt.Term) *smt.Term { return B.UF("prefixub", smt.Real, s) }
	zero := B.BVC(0, 64)
	r0, r1 := B.RealC(0, 1), B.RealC(1, 1)
	// the embedding: injective, into (0,1)
	B.AddAxiom("strrank", B.Forall([]*smt.Term{a}, B.And(B.IntOp("<", r0, x.rank(a)), B.IntOp("<", x.rank(a), r1), B.Eq(B.UF("strunrank", StrS, x.rank(a)), a))))
	// prefixes are intervals of the order
	B.AddAxiom("hasprefix", B.Forall([]*smt.Term{a, p}, B.Eq(hp(a, p), B.And(B.IntOp("<=", x.rank(p), x.rank(a)), B.IntOp("<", x.rank(a), ub(p))))))
	B.AddAxiom("prefixub", B.Forall([]*smt.Term{p}, B.And(B.IntOp("<", x.rank(p), ub(p)), B.IntOp("<=", ub(p), r1))))
	B.AddAxiom("hasprefix", B.Forall([]*smt.Term{a, p}, B.Implies(hp(a, p), B.BVCmp("bvsle", ln(p), ln(a)))))
	B.AddAxiom("hasprefix", B.Forall([]*smt.Term{a, p}, B.Implies(B.And(hp(a, p), B.Eq(ln(a), ln(p))), B.Eq(a, p))))
	B.AddAxiom("hasprefix", B.Forall([]*smt.Term{a, p}, B.Implies(B.And(hp(a, p), B.BVCmp("bvslt", zero, ln(p))), B.Eq(at(a, zero), at(p, zero)))))
	B.AddAxiom("hasprefix", B.Forall([]*smt.Term{a}, hp(a, x.strConst(""))))
	// lengths
	B.AddAxiom("strlen", B.Forall([]*smt.Term{a}, B.And(B.BVCmp("bvsle", zero, ln(a)), B.BVCmp("bvsle", ln(a), B.BVC(1<<40, 64)))))
	B.AddAxiom("strlen", B.Forall([]*smt.Term{a}, B.Eq(B.Eq(ln(a), zero), B.Eq(a, x.strConst("")))))
	x.note("string axioms: lexicographic order as an order-embedding strrank into (0,1); strings with prefix p form the interval [rank(p), prefixub(p)); hasprefix implies length/first-byte facts; 0 <= len <= 2^40")
}

func (x *Exec) strLess(a, b *smt.Term) *smt.Term {
	x.strAxioms()
	return x.B.IntOp("<", x.rank(a), x.rank(b))
}
func (x *Exec) hasPrefix(s, p *smt.Term) *smt.Term {
	x.strAxioms()
	return x.hasPrefixRaw(s, p)
}
func (x *Exec) strLen(s *smt.Term) *smt.Term {
	x.strAxioms()
	return x.B.UF("strlen", I64, s)
}
func (x *Exec) strAt(s, i *smt.Term) *smt.Term {
	x.strAxioms()
	return x.B.UF("strat", smt.BV(8), s, i)
}
func (x *Exec) strConcat(a, b *smt.Term) *smt.Term {
	x.strAxioms()
	B := x.B
	r := B.UF("strcat", StrS, a, b)
	x.assumeGlobal(B.Eq(x.strLen(r), B.BVBin("bvadd", x.strLen(a), x.strLen(b))))
	// the empty string is the unit of concatenation
	empty := x.strConst("")
	x.assumeGlobal(B.Implies(B.Eq(b, empty), B.Eq(r, a)))
	x.assumeGlobal(B.Implies(B.Eq(a, empty), B.Eq(r, b)))
	return r
}
func (x *Exec) strSub(s, lo, hi *smt.Term) *smt.Term {
	x.strAxioms()
	B := x.B
	r := B.UF("strsub", StrS, s, lo, hi)
	// the length fact holds for an in-range slice only: asserted unguarded, a slice expression on one
	// path (or in a contract) would force 0 <= lo <= hi on every other path as well
	inRange := B.And(B.BVCmp("bvsle", B.BVC(0, 64), lo), B.BVCmp("bvsle", lo, hi), B.BVCmp("bvsle", hi, x.strLen(s)))
	x.assumeGlobal(B.Implies(inRange, B.Eq(x.strLen(r), B.BVBin("bvsub", hi, lo))))
	return r
}

// ---------- maps

func mapKeySort(mt *types.Map) *smt.Sort {
	if _, isIface := mt.Key().Underlying().(*types.Interface); isIface {
		return RefS
	}
	ls := flatten(mt.Key())
	if len(ls) != 1 {
		unsupported("map with composite key type %s", mt.Key())
	}
	return ls[0].Sort
}

// mapKeyTerm: the key of a map access as one term. An interface key (dynamic type, data word) is
// paired by an uninterpreted function that is injective on every pair the execution builds (the
// projections are asserted for each instance).
func (x *Exec) mapKeyTerm(v Value, kt types.Type) *smt.Term {
	if _, isIface := kt.Underlying().(*types.Interface); isIface {
		B := x.B
		s := v.(*Struct)
		typ, val := s.Fields[0].(*smt.Term), x.scalar(s.Fields[1], nil)
		k := B.UF("ikey", RefS, typ, val)
		x.assumeGlobal(B.And(B.Eq(B.UF("ikey_typ", RefS, k), typ), B.Eq(B.UF("ikey_val", RefS, k), val)))
		return k
	}
	return x.scalar(v, kt)
}

// mapKeyValue: the Go value of a key term (inverse of mapKeyTerm).
func (x *Exec) mapKeyValue(k *smt.Term, kt types.Type) Value {
	if _, isIface := kt.Underlying().(*types.Interface); isIface {
		B := x.B
		typ, val := B.UF("ikey_typ", RefS, k), B.UF("ikey_val", RefS, k)
		x.assumeGlobal(B.Eq(B.UF("ikey", RefS, typ, val), k))
		return &Struct{[]Value{typ, val}}
	}
	kt2 := []*smt.Term{k}
	return x.fromLeaves(kt, &kt2)
}

func mapKey(mt *types.Map) string { return "map:" + typeKey(mt) }

func (x *Exec) mapDom(st *State, mt *types.Map) *smt.Term {
	return x.heapGet(st, mapKey(mt)+"#dom", smt.Array(RefS, smt.Array(mapKeySort(mt), smt.Bool)))
}

func (x *Exec) mapInit(st *State, mt *types.Map, ref *smt.Term) {
	B := x.B
	ks := mapKeySort(mt)
	dom := x.mapDom(st, mt)
	x.heapSet(st, mapKey(mt)+"#dom", B.Store(dom, ref, B.ConstArray(smt.Array(ks, smt.Bool), B.False())))
	ln := x.heapGet(st, mapKey(mt)+"#len", smt.Array(RefS, I64))
	x.heapSet(st, mapKey(mt)+"#len", B.Store(ln, ref, B.BVC(0, 64)))
}

func (x *Exec) mapLen(st *State, mt *types.Map, m *smt.Term) *smt.Term {
	B := x.B
	ln := x.heapGet(st, mapKey(mt)+"#len", smt.Array(RefS, I64))
	v := B.Select(ln, m)
	x.assumeGlobal(B.BVCmp("bvsle", B.BVC(0, 64), v))
	return B.Ite(B.Eq(m, B.IntC(0)), B.BVC(0, 64), v)
}

func (x *Exec) mapRead(st *State, mt *types.Map, m *smt.Term, k *smt.Term) (Value, *smt.Term) {
	B := x.B
	dom := x.mapDom(st, mt)
	ok := B.And(B.Neq(m, B.IntC(0)), B.Select(B.Select(dom, m), k))
	ls := flatten(mt.Elem())
	ts := make([]*smt.Term, len(ls))
	ks := mapKeySort(mt)
	for i, l := range ls {
		arr := x.heapGet(st, mapKey(mt)+"#val"+l.Suffix, smt.Array(RefS, smt.Array(ks, l.Sort)))
		ts[i] = B.Ite(ok, B.Select(B.Select(arr, m), k), x.zeroOf(l.Sort))
	}
	x.sliceInv(st, ls, ts)
	return x.fromLeaves(mt.Elem(), &ts), ok
}

func (x *Exec) lookup(f *Frame, st *State, ins *ssa.Lookup) Value {
	if b, ok := ins.X.Type().Underlying().(*types.Basic); ok && b.Info()&types.IsString != 0 {
		s := f.val(ins.X).(*smt.Term)
		idx := x.toInt64(f.val(ins.Index), ins.Index.Type())
		f.inRange(st, ins, idx, x.strLen(s))
		return x.strAt(s, idx)
	}
	mt := ins.X.Type().Underlying().(*types.Map)
	m := f.val(ins.X).(*smt.Term)
	k := x.mapKeyTerm(f.val(ins.Index), mt.Key())
	v, ok := x.mapRead(st, mt, m, k)
	if ins.CommaOk {
		return &Struct{[]Value{v, ok}}
	}
	return v
}

func (x *Exec) mapUpdate(f *Frame, st *State, ins *ssa.MapUpdate) {
	B := x.B
	mt := ins.Map.Type().Underlying().(*types.Map)
	m := f.val(ins.Map).(*smt.Term)
	k := x.mapKeyTerm(f.val(ins.Key), mt.Key())
	f.boundsCheck(st, ins, "nil-map-write", B.Neq(m, B.IntC(0)))
	x.mapStore(st, mt, m, k, f.val(ins.Value))
}

func (x *Exec) mapStore(st *State, mt *types.Map, m, k *smt.Term, v Value) {
	B := x.B
	ks := mapKeySort(mt)
	dom := x.mapDom(st, mt)
	had := B.Select(B.Select(dom, m), k)
	x.heapSet(st, mapKey(mt)+"#dom", B.Store(dom, m, B.Store(B.Select(dom, m), k, B.True())))
	ln := x.heapGet(st, mapKey(mt)+"#len", smt.Array(RefS, I64))
	x.heapSet(st, mapKey(mt)+"#len", B.Store(ln, m, B.Ite(had, B.Select(ln, m), B.BVBin("bvadd", B.Select(ln, m), B.BVC(1, 64)))))
	ls := flatten(mt.Elem())
	ts := x.toLeaves(v, mt.Elem())
	for i, l := range ls {
		key := mapKey(mt) + "#val" + l.Suffix
		arr := x.heapGet(st, key, smt.Array(RefS, smt.Array(ks, l.Sort)))
		x.heapSet(st, key, B.Store(arr, m, B.Store(B.Select(arr, m), k, ts[i])))
	}
}

func (x *Exec) mapDelete(st *State, mt *types.Map, m *smt.Term, kv Value) {
	B := x.B
	k := x.mapKeyTerm(kv, mt.Key())
	dom := x.mapDom(st, mt)
	had := B.And(B.Neq(m, B.IntC(0)), B.Select(B.Select(dom, m), k))
	x.heapSet(st, mapKey(mt)+"#dom", B.Store(dom, m, B.Store(B.Select(dom, m), k, B.False())))
	ln := x.heapGet(st, mapKey(mt)+"#len", smt.Array(RefS, I64))
	x.heapSet(st, mapKey(mt)+"#len", B.Store(ln, m, B.Ite(had, B.BVBin("bvsub", B.Select(ln, m), B.BVC(1, 64)), B.Select(ln, m))))
}

// ---------- range over maps and strings

type rangeIter struct {
	mt      *types.Map
	m       *smt.Term
	visited *Cell // Array(K -> Bool)
	str     *smt.Term
	pos     *Cell
}

func (x *Exec) rangeInit(f *Frame, st *State, ins *ssa.Range) Value {
	x.cellN++
	switch t := ins.X.Type().Underlying().(type) {
	case *types.Map:
		c := &Cell{ID: x.cellN, Name: "visited", Type: nil}
		st.cells[c] = x.B.ConstArray(smt.Array(mapKeySort(t), smt.Bool), x.B.False())
		it := &rangeIter{mt: t, m: f.val(ins.X).(*smt.Term), visited: c}
		f.iters[ins] = it
		return &Struct{}
	case *types.Basic:
		c := &Cell{ID: x.cellN, Name: "strpos", Type: types.Typ[types.Int]}
		st.cells[c] = x.B.BVC(0, 64)
		it := &rangeIter{str: f.val(ins.X).(*smt.Term), pos: c}
		f.iters[ins] = it
		return &Struct{}
	}
	unsupported("range over %s", ins.X.Type())
	return nil
}

func (x *Exec) rangeNext(f *Frame, st *State, ins *ssa.Next) Value {
	B := x.B
	it := f.iters[ins.Iter.(*ssa.Range)]
	if it == nil {
		unsupported("next on unknown iterator")
	}
	if it.mt != nil {
		ks := mapKeySort(it.mt)
		vis := st.cells[it.visited].(*smt.Term)
		dom := B.Select(x.mapDom(st, it.mt), it.m)
		k := B.Fresh("rangekey", ks)
		ok := B.Fresh("rangeok", smt.Bool)
		// ok <=> some key of the domain is unvisited; then k is such a key
		q := B.BoundVar("rk", ks)
		some := B.Exists([]*smt.Term{q}, B.And(B.Select(dom, q), B.Not(B.Select(vis, q))))
		st.PC = B.And(st.PC, B.Eq(ok, B.And(B.Neq(it.m, B.IntC(0)), some)), B.Implies(ok, B.And(B.Select(dom, k), B.Not(B.Select(vis, k)))))
		st.cells[it.visited] = B.Ite(ok, B.Store(vis, k, B.True()), vis)
		v, _ := x.mapRead(st, it.mt, it.m, k)
		return &Struct{[]Value{ok, x.mapKeyValue(k, it.mt.Key()), v}}
	}
	// string: (ok, index, rune) with utf8 decoding left uninterpreted
	pos := st.cells[it.pos].(*smt.Term)
	ln := x.strLen(it.str)
	ok := B.BVCmp("bvslt", pos, ln)
	r := B.UF("utf8rune", smt.BV(32), it.str, pos)
	sz := B.UF("utf8size", I64, it.str, pos)
	x.assumeGlobal(B.And(B.BVCmp("bvsle", B.BVC(1, 64), sz), B.BVCmp("bvsle", sz, B.BVC(4, 64))))
	x.note("range over string: utf8 decoding uninterpreted (rune, size in 1..4)")
	st.cells[it.pos] = B.Ite(ok, B.BVBin("bvadd", pos, sz), pos)
	return &Struct{[]Value{ok, pos, r}}
}

// ---------- library function models

type libFn struct {
	apply func(f *Frame, st *State, ins ssa.Instruction, args []Value) (Value, bool)
	mods  func(c *ssa.CallCommon) []string
}

func (x *Exec) libModel(fn *ssa.Function) *libFn {
	if fn == nil {
		return nil
	}
	return x.lib[fn.String()]
}

func noMods(*ssa.CallCommon) []string { return nil }

func (x *Exec) invokeModel(name string) func(f *Frame, st *State, recv *Struct, args []Value) Value {
	switch name {
	case "(error).Error":
		return func(f *Frame, st *State, recv *Struct, args []Value) Value {
			return x.B.UF("error_text", StrS, recv.Fields[0].(*smt.Term), x.scalar(recv.Fields[1], nil))
		}
	}
	return nil
}

func (x *Exec) pureLib(name string, res func(args []Value) Value) {
	x.lib[name] = &libFn{apply: func(f *Frame, st *State, ins ssa.Instruction, args []Value) (Value, bool) {
		x.note("library spec: " + name)
		return res(args), true
	}, mods: noMods}
}

func (x *Exec) registerLib() {
	B := x.B
	x.pureLib("strings.HasPrefix", func(a []Value) Value { return x.hasPrefix(a[0].(*smt.Term), a[1].(*smt.Term)) })
	x.pureLib("strings.Count", func(a []Value) Value { return x.strCount(a[0].(*smt.Term), a[1].(*smt.Term)) })
	x.pureLib("strings.Join", func(a []Value) Value {
		ls := x.toLeaves(a[0], types.NewSlice(types.Typ[types.String]))
		return B.UF("strings_join", StrS, append(ls, a[1].(*smt.Term))...)
	})
	x.lib["errors.New"] = &libFn{apply: func(f *Frame, st *State, ins ssa.Instruction, args []Value) (Value, bool) {
		x.note("library spec: errors.New returns a non-nil error distinct from io.EOF")
		typ := x.typeID(types.NewPointer(types.Typ[types.String])) // *errors.errorString stand-in
		val := x.allocRef(st, "err")
		// distinct from the package-level sentinel io.EOF (itself created by errors.New at init time)
		eofT := x.heapGet(st, "glob:io.EOF#typ", RefS)
		eofV := x.heapGet(st, "glob:io.EOF#val", RefS)
		st.PC = B.And(st.PC, B.Not(B.And(B.Eq(typ, eofT), B.Eq(val, eofV))))
		return &Struct{[]Value{typ, val}}, true
	}, mods: noMods}
	x.lib["sort.Strings"] = &libFn{apply: func(f *Frame, st *State, ins ssa.Instruction, args []Value) (Value, bool) {
		x.note("library spec: sort.Strings leaves the slice sorted (non-strict) with the same multiset of elements")
		x.sortStringsSpec(st, args[0])
		return &Struct{}, true
	}, mods: func(c *ssa.CallCommon) []string { return []string{"[]string"} }}
	x.registerReflectLib()
	// error reporting of the interpreter: these functions panic with a compile error
	noret := &libFn{apply: func(f *Frame, st *State, ins ssa.Instruction, args []Value) (Value, bool) {
		x.note("library spec: output.Errorf / Stringer.Errorf never return (they panic with the compile error)")
		if f != nil && f.neverErrors() {
			x.oblige("no-internal-error", "this Errorf call is unreachable", f.where(ins), st, x.B.False())
		}
		if f != nil && f.panicHook != nil {
			f.panicHook(st.clone(), "compile error", ins)
		}
		return nil, false
	}, mods: noMods}
	// pure helpers of base/reflect and xreflect used by the compile functions: modelled as
	// deterministic uninterpreted functions of their arguments (no effect on the heap)
	pureUF := func(name string) {
		x.lib[name] = &libFn{apply: func(f *Frame, st *State, ins ssa.Instruction, args []Value) (Value, bool) {
			x.note("library spec: " + name + " is a pure function")
			fn := x.curCallee
			if fn == nil || fn.String() != name {
				unsupported("library function %s called outside a call site", name)
			}
			var flat []*smt.Term
			var tags []string
			for i, a := range args {
				for _, l := range x.toLeaves(a, fn.Params[i].Type()) {
					flat = append(flat, l)
					tags = append(tags, sortTag(l.S))
				}
			}
			res := fn.Signature.Results()
			var rs []Value
			for i := 0; i < res.Len(); i++ {
				ls := flatten(res.At(i).Type())
				ts := make([]*smt.Term, len(ls))
				for j, l := range ls {
					ts[j] = B.UF(fmt.Sprintf("pure_%s_%d_%d_%s", sanitize(name), i, j, strings.Join(tags, "_")), l.Sort, flat...)
				}
				rs = append(rs, x.fromLeaves(res.At(i).Type(), &ts))
			}
			return resultValue(rs), true
		}, mods: noMods}
	}
	for _, n := range []string{
		"github.com/cosmos72/gomacro/base/reflect.ValueType",
		"github.com/cosmos72/gomacro/base/reflect.IsOptimizedKind",
		"(github.com/cosmos72/gomacro/xreflect.Type).ReflectType",
		"(github.com/cosmos72/gomacro/xreflect.Type).IdenticalTo",
		"(github.com/cosmos72/gomacro/xreflect.Type).Comparable",
		"(github.com/cosmos72/gomacro/xreflect.Type).AssignableTo",
		"(github.com/cosmos72/gomacro/xreflect.Type).Name",
		"(github.com/cosmos72/gomacro/xreflect.Type).NumMethod",
		"github.com/cosmos72/gomacro/xreflect.ZeroR",
		"unicode/utf8.DecodeRuneInString",
		"strings.TrimSpace",
		"github.com/cosmos72/gomacro/base/strings.Split2",
		"go/ast.IsExported",
		"reflect.ValueOf",
		"reflect.TypeOf",
		"(*go/token.File).PositionFor",
		"(*go/token.FileSet).File",
		"(reflect.Value).Pointer",
	} {
		pureUF(n)
	}
	// diagnostics: print to the configured output, no effect on interpreter state
	noeffect := &libFn{apply: func(f *Frame, st *State, ins ssa.Instruction, args []Value) (Value, bool) {
		x.note("library spec: Output.Warnf / Debugf only print (no effect on interpreter state)")
		return &Struct{}, true
	}, mods: noMods}
	for _, n := range []string{"(*sync.Mutex).Lock", "(*sync.Mutex).Unlock"} {
		x.lib[n] = &libFn{apply: func(f *Frame, st *State, ins ssa.Instruction, args []Value) (Value, bool) {
			x.note("library spec: sync.Mutex.Lock / Unlock have no effect on the modelled state (sequential model)")
			return &Struct{}, true
		}, mods: noMods}
	}
	x.lib["(*go/token.Position).IsValid"] = &libFn{apply: func(f *Frame, st *State, ins ssa.Instruction, args []Value) (res Value, ok bool) {
		x.note("library spec: token.Position.IsValid() == (Line > 0)")
		defer func() {
			// a Position held as an opaque value (the result of an unknown call kept in a local): no
			// field to read, the answer is unknown
			if r := recover(); r != nil {
				if _, isRT := r.(runtime.Error); !isRT {
					panic(r)
				}
				res, ok = B.Fresh("pos_isvalid", smt.Bool), true
			}
		}()
		fn := x.curCallee
		stT := fn.Params[0].Type().Underlying().(*types.Pointer).Elem()
		su := stT.Underlying().(*types.Struct)
		for i := 0; i < su.NumFields(); i++ {
			if su.Field(i).Name() == "Line" {
				v := x.load(st, x.fieldAddr(args[0], stT, i), su.Field(i).Type()).(*smt.Term)
				return B.BVCmp("bvsgt", v, B.BVC(0, v.S.W)), true
			}
		}
		unsupported("token.Position has no field Line")
		return nil, false
	}, mods: noMods}
	x.lib["(*github.com/cosmos72/gomacro/base.Signals).IsEmpty"] = &libFn{apply: func(f *Frame, st *State, ins ssa.Instruction, args []Value) (Value, bool) {
		x.note("library spec: Signals.IsEmpty() == (Sync == 0 && Debug == 0 && Async == 0) (an atomic 32-bit load of the four bytes; the padding byte is never written)")
		fn := x.curCallee
		stT := fn.Params[0].Type().Underlying().(*types.Pointer).Elem()
		su := stT.Underlying().(*types.Struct)
		res := B.True()
		for i := 0; i < 3; i++ {
			ft := su.Field(i).Type()
			v := x.load(st, x.fieldAddr(args[0], stT, i), ft).(*smt.Term)
			res = B.And(res, B.Eq(v, B.BVC(0, v.S.W)))
		}
		return res, true
	}, mods: noMods}
	// base/reflect.Category: the representative kind of a kind (its definition, as a term)
	x.lib["github.com/cosmos72/gomacro/base/reflect.Category"] = &libFn{apply: func(f *Frame, st *State, ins ssa.Instruction, args []Value) (Value, bool) {
		k := args[0].(*smt.Term)
		w := k.S.W
		if k.IsConst() {
			c := k.Val
			switch {
			case c >= kInt && c <= kInt64:
				c = kInt
			case c >= kUint && c <= kUintptr:
				c = kUint
			case c == kFloat32 || c == kFloat64:
				c = kFloat64
			case c == kComplex64 || c == kComplex128:
				c = kComplex128
			}
			return B.BVC(c, w), true
		}
		in := func(lo, hi uint64) *smt.Term {
			return B.And(B.BVCmp("bvule", B.BVC(lo, w), k), B.BVCmp("bvule", k, B.BVC(hi, w)))
		}
		r := B.Ite(in(kInt, kInt64), B.BVC(kInt, w),
			B.Ite(in(kUint, kUintptr), B.BVC(kUint, w),
				B.Ite(in(kFloat32, kFloat64), B.BVC(kFloat64, w),
					B.Ite(in(kComplex64, kComplex128), B.BVC(kComplex128, w), k))))
		return r, true
	}, mods: noMods}
	// base/reflect.IsCategory(k, cats...): Category(k) is one of cats (its definition, unrolled over
	// the variadic slice, whose length is a literal at every call site of the package)
	x.lib["github.com/cosmos72/gomacro/base/reflect.IsCategory"] = &libFn{apply: func(f *Frame, st *State, ins ssa.Instruction, args []Value) (Value, bool) {
		cat, _ := x.lib["github.com/cosmos72/gomacro/base/reflect.Category"].apply(f, st, ins, args[:1])
		ck := cat.(*smt.Term)
		arr, off, ln, _ := sliceParts(args[1])
		if !ln.IsConst() || ln.Val > 8 {
			unsupported("IsCategory with a category list of unknown length")
		}
		fn := x.curCallee
		et := fn.Params[1].Type().Underlying().(*types.Slice).Elem()
		res := B.False()
		for i := uint64(0); i < ln.Val; i++ {
			idx := B.BVC(i, 64)
			p := &Ptr{Arr: arr, Idx: B.IndexAdd(off, idx), Off: off, Rel: idx, Key: "[]" + typeKey(et), Type: et}
			e := x.load(st, p, et).(*smt.Term)
			res = B.Or(res, B.Eq(ck, e))
		}
		return res, true
	}, mods: noMods}
	// reflect accessors without a functional model: no effect, unconstrained result (sound for
	// frame reasoning; nothing can be proved about the value)
	// Value.Interface(): what the reflect.Value currently holds, as a heap read keyed by the handle
	// (so that assignments through the handle and unknown calls change it). Not linked to the
	// typed cell model of Int/Float/...: used for function values.
	for _, n := range []string{"(reflect.Value).Interface", "(github.com/cosmos72/gomacro/xreflect.Value).Interface"} {
		x.lib[n] = &libFn{apply: func(f *Frame, st *State, ins ssa.Instruction, args []Value) (Value, bool) {
			x.note("library spec: Value.Interface() reads what the handle currently holds (heap model rcell#ityp / rcell#ival)")
			return x.rvInterface(st, rvOf(args[0])), true
		}, mods: noMods}
	}
	for _, n := range []string{"(reflect.Value).Addr", "(reflect.Value).Elem", "(reflect.Value).Type",
		"(github.com/cosmos72/gomacro/xreflect.Value).Addr"} {
		name := n
		if _, dup := x.lib[name]; dup {
			continue
		}
		x.lib[name] = &libFn{apply: func(f *Frame, st *State, ins ssa.Instruction, args []Value) (Value, bool) {
			x.note("library spec: " + name + " has no effect (result unconstrained)")
			fn := x.curCallee
			res := fn.Signature.Results()
			var rs []Value
			for i := 0; i < res.Len(); i++ {
				rs = append(rs, x.freshValue("rv_"+fn.Name(), res.At(i).Type()))
			}
			return resultValue(rs), true
		}, mods: noMods}
	}
	x.lib["(*github.com/cosmos72/gomacro/base/output.Output).Warnf"] = noeffect
	x.lib["(*github.com/cosmos72/gomacro/base/output.Output).Debugf"] = noeffect
	x.lib["github.com/cosmos72/gomacro/base/output.Debugf"] = noeffect
	x.lib["(*github.com/cosmos72/gomacro/base/output.Stringer).Errorf"] = noret
	x.lib["github.com/cosmos72/gomacro/base/output.Errorf"] = noret
}

// sortStringsSpec: the elements of s are replaced by a sorted permutation.
// The permutation is given by a ghost bijection perm over [0,len).
func (x *Exec) sortStringsSpec(st *State, s Value) {
	B := x.B
	arr, off, ln, _ := sliceParts(s)
	key := "[]string"
	inner := smt.Array(I64, StrS)
	h := x.heapGet(st, key, smt.Array(RefS, inner))
	old := B.Select(h, arr)
	nw := B.Fresh("sorted", inner)
	x.havocN++
	perm := fmt.Sprintf("perm%d", x.havocN)
	inv := fmt.Sprintf("perminv%d", x.havocN)
	i, j := B.BoundVar("si", I64), B.BoundVar("sj", I64)
	zero := B.BVC(0, 64)
	in := func(v *smt.Term) *smt.Term { return B.And(B.BVCmp("bvsle", zero, v), B.BVCmp("bvslt", v, ln)) }
	at := func(a, v *smt.Term) *smt.Term { return x.elemAt(a, off, v) }
	pi := B.UF(perm, I64, i)
	qi := B.UF(inv, I64, i)
	sorted := B.Forall([]*smt.Term{i, j}, B.Implies(B.And(in(i), in(j), B.BVCmp("bvslt", i, j)), B.Not(x.strLess(at(nw, j), at(nw, i)))))
	permF := B.Forall([]*smt.Term{i}, B.Implies(in(i), B.And(in(pi), B.Eq(at(nw, i), at(old, pi)), B.Eq(B.UF(inv, I64, pi), i))))
	permB := B.Forall([]*smt.Term{i}, B.Implies(in(i), B.And(in(qi), B.Eq(at(old, i), at(nw, qi)), B.Eq(B.UF(perm, I64, qi), i))))
	frame := B.Forall([]*smt.Term{i}, B.Implies(B.Or(B.BVCmp("bvslt", i, off), B.BVCmp("bvsle", B.BVBin("bvadd", off, ln), i)), B.Eq(B.Select(nw, i), B.Select(old, i))))
	st.PC = B.And(st.PC, sorted, permF, permB, frame)
	x.heapSet(st, key, B.Store(h, arr, nw))
}

// rvInterface: the interface value a reflect.Value handle currently holds.
func (x *Exec) rvInterface(st *State, rv *smt.Term) *Struct {
	typ := x.B.Select(x.heapGet(st, "rcell#ityp", smt.Array(rvSort, RefS)), rv)
	val := x.B.Select(x.heapGet(st, "rcell#ival", smt.Array(rvSort, RefS)), rv)
	return &Struct{[]Value{typ, val}}
}
