package sym

import (
	"fmt"
	"runtime/debug"
	"sort"
	"strconv"
	"strings"

	"golang.org/x/tools/go/ssa"

	"gowp/smt"
	"gowp/spec"
)

// Method tables. A function that installs one function literal per (kind, method name) - the
// generic-contract methods of basic types in xreflect - gets a contract of the form
//
//	//@ func (*Universe).addBasicTypeMethodsCTI(xt)
//	//@   closure method Add(z, a, b) := a + b
//
// "every function literal created on a path on which the switched-on name equals "Add" takes three
// parameters and returns a + b, evaluated by Go's rules in the literal's own parameter types, and has
// no effect". The parameters of the clause are bound by position, so the names in the code do not
// matter. A literal on a path whose name has no clause is an undischarged obligation (or counted as
// uncovered under `closure partial`); a clause that no literal matches is a vacuity failure.

type methodClause struct {
	name   string
	params []string
	expr   spec.Expr
	text   string
	c      *spec.Clause
	used   int
}

func parseMethodClauses(sp *spec.FuncSpec) ([]*methodClause, bool) {
	var out []*methodClause
	partial := false
	for _, c := range sp.Of("closure") {
		t := strings.TrimSpace(c.Text)
		if strings.HasPrefix(t, "partial") {
			partial = true
			continue
		}
		if !strings.HasPrefix(t, "method ") {
			continue
		}
		t = strings.TrimSpace(strings.TrimPrefix(t, "method "))
		k := strings.Index(t, ":=")
		op, cl := strings.Index(t, "("), strings.Index(t, ")")
		if k < 0 || op < 0 || cl < op || cl > k {
			specErr("closure method Name(params) := expr: %q", c.Text)
		}
		mc := &methodClause{name: strings.TrimSpace(t[:op]), text: t, c: c}
		for _, p := range strings.Split(t[op+1:cl], ",") {
			if p = strings.TrimSpace(p); p != "" {
				mc.params = append(mc.params, p)
			}
		}
		e, err := spec.ParseExpr(t[k+2:])
		if err != nil {
			specErr("%s:%d: %v", c.File, c.Line, err)
		}
		mc.expr = e
		out = append(out, mc)
	}
	return out, partial
}

func isMethodTable(sp *spec.FuncSpec) bool {
	for _, c := range sp.Of("closure") {
		if strings.HasPrefix(strings.TrimSpace(c.Text), "method ") {
			return true
		}
	}
	return false
}

// VerifyMethodTable checks the installing function's own contract and every literal it creates.
func (x *Exec) VerifyMethodTable(fn *ssa.Function) (rep *FuncReport) {
	type site struct {
		pc  *smt.Term
		clo *Closure
	}
	var sites []site
	x.OnMakeClosure = func(f *Frame, st *State, mc *ssa.MakeClosure, c *Closure) {
		if f.fn == fn && f.top {
			sites = append(sites, site{st.PC, c})
		}
	}
	// function literals without free variables are plain function values, not MakeClosure
	x.OnFuncValue = func(f *Frame, st *State, v *ssa.Function) {
		if f.fn == fn && f.top && v.Parent() == fn {
			sites = append(sites, site{st.PC, &Closure{Fn: v}})
		}
	}
	rep = x.VerifyFunc(fn)
	x.OnMakeClosure = nil
	x.OnFuncValue = nil
	if rep.Error != "" {
		return rep
	}
	sp := x.specFor(fn)
	start := len(x.Obls)
	defer func() {
		if r := recover(); r != nil {
			switch e := r.(type) {
			case Unsupported:
				rep.Error = e.Error()
			case SpecError:
				rep.Error = e.Error()
			default:
				rep.Error = fmt.Sprintf("engine fault: %v\n%s", r, debug.Stack())
			}
		}
		rep.Obligations = append(rep.Obligations, x.Obls[start:]...)
		rep.Closures = len(sites)
		rep.Notes = rep.Notes[:0]
		for n := range x.Notes {
			rep.Notes = append(rep.Notes, n)
		}
		sort.Strings(rep.Notes)
	}()
	clauses, partial := parseMethodClauses(sp)
	byName := map[string]*methodClause{}
	for _, c := range clauses {
		byName[c.name] = c
	}
	seen := map[string]int{}
	done := map[*ssa.Function]bool{}
	for _, s := range sites {
		if done[s.clo.Fn] {
			continue
		}
		done[s.clo.Fn] = true
		name, _ := methodPath(s.pc)
		kind := "?"
		if ps := s.clo.Fn.Params; len(ps) > 0 {
			kind = ps[0].Type().String()
		}
		sig := "k=" + kind + ",m=" + name
		seen[sig]++
		if seen[sig] > 1 {
			sig = fmt.Sprintf("%s;#%d", sig, seen[sig])
		}
		x.prefix = QualName(fn)
		x.sig = sig
		mc := byName[name+"["+kind+"]"] // a clause for this kind only, e.g. Not[bool]
		if mc == nil {
			mc = byName[name]
		}
		if mc == nil {
			if partial {
				rep.Uncovered = append(rep.Uncovered, sig+": no clause for this method name")
				continue
			}
			x.oblige("closure-not-analysable", "the literal is created on a path whose method name ("+name+") has no closure method clause", x.where(s.clo.Fn), x.newState(), x.B.False())
			continue
		}
		mc.used++
		func() {
			defer func() {
				if r := recover(); r != nil {
					var msg string
					switch e := r.(type) {
					case Unsupported:
						msg = e.Error()
					case SpecError:
						msg = e.Error()
					default:
						panic(r)
					}
					x.NoObl = 0
					x.prefix = QualName(fn)
					x.sig = sig
					if partial && strings.Contains(msg, "string") {
						rep.Uncovered = append(rep.Uncovered, sig+": "+msg)
						return
					}
					x.oblige("closure-not-analysable", msg, x.where(s.clo.Fn), x.newState(), x.B.False())
				}
			}()
			x.checkMethodLiteral(fn, s.clo, mc)
		}()
	}
	x.prefix = QualName(fn)
	x.sig = ""
	st := x.newState()
	if len(sites) == 0 {
		x.oblige("closures-reached", "the function creates at least one function literal", shortFile(sp.File), st, x.B.False())
	}
	for _, c := range clauses {
		if c.used == 0 {
			x.oblige("method-reached", "some literal is created for method "+c.name, fmt.Sprintf("%s:%d", shortFile(c.c.File), c.c.Line), st, x.B.False())
		}
	}
	return rep
}

// methodPath reads the method name and the kind off the creation path condition: the string
// constant the switched-on name is equal to, and the constant the kind is equal to.
func methodPath(pc *smt.Term) (name, kind string) {
	name, kind = "?", "?"
	for _, c := range conjuncts(pc) {
		if c.Op != "=" || len(c.Args) != 2 {
			continue
		}
		for _, a := range c.Args {
			if a.Op == "var" && strings.HasPrefix(a.Name, "str|") {
				if s, err := strconv.Unquote(strings.TrimPrefix(a.Name, "str|")); err == nil {
					name = s
				}
			}
		}
		l, r := c.Args[0], c.Args[1]
		if l.IsConst() {
			l, r = r, l
		}
		if r.IsConst() && r.S.K == smt.KBV && !l.IsConst() {
			if kn, ok := kindNames[r.Val]; ok && kind == "?" {
				kind = kn
			}
		}
	}
	return
}

// checkMethodLiteral runs the literal on arbitrary arguments and compares each returned value
// with the clause's expression over the same arguments.
func (x *Exec) checkMethodLiteral(parent *ssa.Function, clo *Closure, mc *methodClause) {
	fn := clo.Fn
	if len(fn.FreeVars) != 0 {
		unsupported("method literal captures variables")
	}
	where := x.where(fn)
	if len(fn.Params) != len(mc.params) {
		x.oblige("closure-type", fmt.Sprintf("the literal takes %d parameters as %s", len(mc.params), mc.text), where, x.newState(), x.B.False())
		return
	}
	f := x.newFrame(fn, nil)
	f.top = true
	st := x.newState()
	var args []Value
	for i, p := range fn.Params {
		v := x.namedValue(fmt.Sprintf("arg%d_%s", i, sanitize(p.Type().String())), p.Type())
		x.assumeParamWF(st, v, p.Type())
		args = append(args, v)
		f.regs[p] = v
	}
	f.entry = st
	f.panicHook = f.raise
	res := f.run(st.clone(), args)
	if len(res.Rets) == 0 {
		x.oblige("closure", "the literal returns", where, st, x.B.False())
		return
	}
	for _, r := range res.Rets {
		if r.st.PC.IsFalse() {
			continue
		}
		if len(r.results) != 1 {
			x.oblige("closure-type", "the literal returns one value", where, r.st, x.B.False())
			continue
		}
		// the clause over the same arguments, bound by position
		f.overTV = map[string]TV{}
		for i, pn := range mc.params {
			f.overTV[pn] = TV{args[i], fn.Params[i].Type()}
		}
		f.cur, f.curIdx = nil, 0
		x.NoObl++
		want := f.eval(mc.expr, r.st, f.entry)
		x.NoObl--
		got := TV{r.results[0], fn.Signature.Results().At(0).Type()}
		x.oblige("closure", mc.text, fmt.Sprintf("%s:%d (%s)", shortFile(mc.c.File), mc.c.Line, where), r.st, x.eqSpec(got, want))
		if len(r.st.heapWritten()) != 0 || r.st.lazy != st.lazy {
			x.oblige("closure-frame", "the literal has no effect", where, r.st, x.B.False())
		}
	}
}
