package sym

import (
	"go/types"

	"golang.org/x/tools/go/ssa"

	"gowp/smt"
)

// recovery is the panic being propagated while deferred calls run.
type recovery struct {
	val       Value
	recovered bool
}

// conjuncts of a path condition
func conjuncts(t *smt.Term) []*smt.Term {
	if t.Op == "and" {
		return t.Args
	}
	return []*smt.Term{t}
}

// entails is a cheap syntactic check: every conjunct of q is a conjunct of p.
func entails(p, q *smt.Term) bool {
	if q.IsTrue() {
		return true
	}
	have := map[int]bool{}
	for _, c := range conjuncts(p) {
		have[c.ID] = true
	}
	for _, c := range conjuncts(q) {
		if !have[c.ID] {
			return false
		}
	}
	return true
}

// runDefers executes the deferred calls registered so far, last first, on st.
// panicking=true while unwinding. It returns false if the path ends (a deferred call never returns).
func (f *Frame) runDefers(st *State, panicking bool) bool {
	return f.runDefersFrom(st, len(f.defers), panicking)
}

// runDefersFrom runs the deferred calls below index n (the ones still on the defer stack when the
// call at index n is running). A deferred call registered inside a loop stands for zero or more
// executions of it: everything reachable is forgotten, and afterwards the goroutine may or may not
// be panicking (sawRepeated), whatever the mode was before.
func (f *Frame) runDefersFrom(st *State, n int, panicking bool) bool {
	x := f.x
	saveIdx, saveIn := f.deferIdx, f.inDefers
	defer func() { f.deferIdx, f.inDefers = saveIdx, saveIn }()
	f.inDefers = true
	for i := n - 1; i >= 0; i-- {
		f.deferIdx = i
		d := f.defers[i]
		if d.repeated {
			x.note("deferred call inside a loop: modelled as zero or more calls with arbitrary effects, after which the function may be panicking or not")
			x.havocAll(st, x.B.Fresh("tok", RefS))
			if clo, ok := d.fn.(*Closure); ok {
				for _, b := range clo.Binds {
					if p, ok := b.(*Ptr); ok && p.Cell != nil {
						x.havocCell(st, p.Cell)
					}
				}
			}
			f.sawRepeated = true
			continue
		}
		run := func(s *State) bool {
			c := &d.call.Call
			var v Value
			var ok bool
			if c.IsInvoke() {
				f.invoke(s, d.call, c)
				return true
			}
			if bi, isB := c.Value.(*ssa.Builtin); isB {
				_, ok = f.builtin(s, d.call, bi, c, d.args)
				return ok
			}
			v, ok = x.callValue(f, s, d.call, d.fn, d.args, c.Signature())
			_ = v
			return ok
		}
		if entails(st.PC, d.pc) {
			if !run(st) {
				return false
			}
			continue
		}
		sa := st.clone()
		sa.PC = x.B.And(st.PC, d.pc)
		sb := st.clone()
		sb.PC = x.B.And(st.PC, x.B.Not(d.pc))
		if sa.PC.IsFalse() {
			continue
		}
		oka := run(sa)
		switch {
		case oka && !sb.PC.IsFalse():
			*st = *x.merge2(sa, sb)
		case oka:
			*st = *sa
		default:
			*st = *sb
		}
	}
	return true
}

// raise propagates a panic that starts in state ps inside this frame: own deferred calls run
// (they may recover), then the caller's, until the frame under verification records the exit.
// A panic raised while deferred calls are running (during unwinding or at a normal return)
// replaces the current one and continues with the calls still on the defer stack, as in Go.
func (f *Frame) raise(ps *State, why string, ins ssa.Instruction) {
	x := f.x
	if ps.Dead || ps.PC.IsFalse() {
		return
	}
	rec := &recovery{val: f.panicValue()}
	start := len(f.defers)
	if f.inDefers {
		start = f.deferIdx
	}
	saw := false
	if start > 0 {
		saveRec, saveUnw, saveSaw := f.recovering, f.unwinding, f.sawRepeated
		f.unwinding = true
		f.recovering = rec
		f.sawRepeated = false
		ok := f.runDefersFrom(ps, start, true)
		saw = f.sawRepeated
		f.recovering, f.unwinding, f.sawRepeated = saveRec, saveUnw, saveSaw
		if !ok {
			return
		}
	}
	if rec.recovered || saw {
		// normal return through the recover block
		rs0 := ps
		if saw && !rec.recovered {
			rs0 = ps.clone()
		}
		var rs []Value
		if rb := f.fn.Recover; rb != nil {
			sc, si := f.cur, f.curIdx
			f.cur = rb
			for i, instr := range rb.Instrs {
				f.curIdx = i
				if r, ok := instr.(*ssa.Return); ok {
					for _, rv := range r.Results {
						rs = append(rs, f.val(rv))
					}
					break
				}
				if !f.step(rs0, instr) {
					break
				}
			}
			f.cur, f.curIdx = sc, si
		} else {
			res := f.fn.Signature.Results()
			for i := 0; i < res.Len(); i++ {
				rs = append(rs, x.zeroValue(res.At(i).Type()))
			}
		}
		f.rets = append(f.rets, exitRec{st: rs0, results: rs, where: "recovered: " + why, kind: "recovered"})
		if rec.recovered {
			return
		}
	}
	f.exitPanic(ps, why, ins, rec.val)
}

// exitPanic: the panic leaves this frame.
func (f *Frame) exitPanic(ps *State, why string, ins ssa.Instruction, val Value) {
	if f.caller != nil && !f.top && f.caller.panicHook != nil {
		f.caller.panicHook(ps, why, ins)
		return
	}
	w := why
	if ins != nil {
		w = why + " at " + f.where(ins)
	}
	f.panics = append(f.panics, exitRec{st: ps, where: w, kind: "panic", panicV: val})
}

func (f *Frame) panicValue() Value {
	x := f.x
	B := x.B
	typ := B.Fresh("panic_typ", RefS)
	val := B.Fresh("panic_val", RefS)
	x.assumeGlobal(B.Neq(typ, B.IntC(0)))
	return &Struct{[]Value{typ, val}}
}

var _ = types.Typ
