package sym

import (
	"go/types"

	"golang.org/x/tools/go/ssa"

	"gowp/smt"
)

// recovery is the panic being propagated while deferred calls run.
type recovery struct {
	val       Value
	recovered bool
}

// conjuncts of a path condition
func conjuncts(t *smt.Term) []*smt.Term {
	if t.Op == "and" {
		return t.Args
	}
	return []*smt.Term{t}
}

// entails is a cheap syntactic check: every conjunct of q is a conjunct of p.
func entails(p, q *smt.Term) bool {
	if q.IsTrue() {
		return true
	}
	have := map[int]bool{}
	for _, c := range conjuncts(p) {
		have[c.ID] = true
	}
	for _, c := range conjuncts(q) {
		if !have[c.ID] {
			return false
		}
	}
	return true
}

// runDefers executes the deferred calls registered so far, last first, on st.
// panicking=true while unwinding. It returns false if the path ends (a deferred call never returns).
func (f *Frame) runDefers(st *State, panicking bool) bool {
	x := f.x
	for i := len(f.defers) - 1; i >= 0; i-- {
		d := f.defers[i]
		run := func(s *State) bool {
			c := &d.call.Call
			var v Value
			var ok bool
			if c.IsInvoke() {
				f.invoke(s, d.call, c)
				return true
			}
			if bi, isB := c.Value.(*ssa.Builtin); isB {
				_, ok = f.builtin(s, d.call, bi, c, d.args)
				return ok
			}
			v, ok = x.callValue(f, s, d.call, d.fn, d.args, c.Signature())
			_ = v
			return ok
		}
		if entails(st.PC, d.pc) {
			if !run(st) {
				return false
			}
			continue
		}
		sa := st.clone()
		sa.PC = x.B.And(st.PC, d.pc)
		sb := st.clone()
		sb.PC = x.B.And(st.PC, x.B.Not(d.pc))
		if sa.PC.IsFalse() {
			continue
		}
		oka := run(sa)
		switch {
		case oka && !sb.PC.IsFalse():
			*st = *x.merge2(sa, sb)
		case oka:
			*st = *sa
		default:
			*st = *sb
		}
	}
	return true
}

// raise propagates a panic that starts in state ps inside this frame: own deferred calls run
// (they may recover), then the caller's, until the frame under verification records the exit.
func (f *Frame) raise(ps *State, why string, ins ssa.Instruction) {
	x := f.x
	if ps.Dead || ps.PC.IsFalse() {
		return
	}
	if f.unwinding {
		// a panic inside a deferred call while unwinding: replaces the current panic; keep unwinding
		// in the outer loop (sound over-approximation: state is already the panicking one)
		return
	}
	rec := &recovery{val: f.panicValue()}
	if len(f.defers) > 0 {
		f.unwinding = true
		f.recovering = rec
		ok := f.runDefers(ps, true)
		f.recovering = nil
		f.unwinding = false
		if !ok {
			return
		}
	}
	if rec.recovered {
		// normal return through the recover block
		var rs []Value
		if rb := f.fn.Recover; rb != nil {
			sc, si := f.cur, f.curIdx
			f.cur = rb
			for i, instr := range rb.Instrs {
				f.curIdx = i
				if r, ok := instr.(*ssa.Return); ok {
					for _, rv := range r.Results {
						rs = append(rs, f.val(rv))
					}
					break
				}
				if !f.step(ps, instr) {
					break
				}
			}
			f.cur, f.curIdx = sc, si
		} else {
			res := f.fn.Signature.Results()
			for i := 0; i < res.Len(); i++ {
				rs = append(rs, x.zeroValue(res.At(i).Type()))
			}
		}
		f.rets = append(f.rets, exitRec{st: ps, results: rs, where: "recovered: " + why, kind: "recovered"})
		return
	}
	if f.caller != nil && !f.top && f.caller.panicHook != nil {
		f.caller.panicHook(ps, why, ins)
		return
	}
	w := why
	if ins != nil {
		w = why + " at " + f.where(ins)
	}
	f.panics = append(f.panics, exitRec{st: ps, where: w, kind: "panic", panicV: rec.val})
}

func (f *Frame) panicValue() Value {
	x := f.x
	B := x.B
	typ := B.Fresh("panic_typ", RefS)
	val := B.Fresh("panic_val", RefS)
	x.assumeGlobal(B.Neq(typ, B.IntC(0)))
	return &Struct{[]Value{typ, val}}
}

var _ = types.Typ
