package sym

import (
	"fmt"
	"go/types"
	"sort"
	"strings"

	"gowp/smt"
)

// lazyHeap describes the contents of heap keys that were not written explicitly on this path.
type lazyHeap struct {
	// leaf: values are H|key(base) unless a later havoc record matches the key
	base   *smt.Term
	havocs []havocRec
	// or a merge of two descriptors
	cond *smt.Term
	a, b *lazyHeap
}

type havocRec struct {
	prefix string
	id     int
}

// State is the mutable memory + path condition at a program point.
type State struct {
	PC    *smt.Term
	heap  map[string]*smt.Term
	lazy  *lazyHeap
	cells map[*Cell]Value
	// ghost: trace of opaque calls (callee, token) in order
	Trace []*smt.Term
	// write log (optional; used by closure-family frame checks)
	Writes *[]WriteRec
	Dead   bool
}

// WriteRec records one store for frame checks.
type WriteRec struct {
	Key   string
	Ref   *smt.Term
	Idx   *smt.Term
	Guard *smt.Term
}

func (x *Exec) newState() *State {
	return &State{PC: x.B.True(), heap: map[string]*smt.Term{}, lazy: &lazyHeap{base: x.B.Var("tok0", RefS)}, cells: map[*Cell]Value{}}
}

func (s *State) clone() *State {
	n := &State{PC: s.PC, heap: make(map[string]*smt.Term, len(s.heap)), lazy: s.lazy, cells: make(map[*Cell]Value, len(s.cells)), Writes: s.Writes, Dead: s.Dead}
	for k, v := range s.heap {
		n.heap[k] = v
	}
	for k, v := range s.cells {
		n.cells[k] = v
	}
	n.Trace = append([]*smt.Term{}, s.Trace...)
	return n
}

func (x *Exec) lazyGet(l *lazyHeap, key string, sort *smt.Sort) *smt.Term {
	if immutableGlobals[strings.SplitN(key, "#", 2)[0]] {
		return x.B.Var(key, sort)
	}
	if strings.HasPrefix(key, "glob:") && x.hasInitial {
		x.prepareInitial()
		if v, ok := x.initialValue(key); ok && v.S == sort {
			return v
		}
	}
	if l.a != nil {
		return x.B.Ite(l.cond, x.lazyGet(l.a, key, sort), x.lazyGet(l.b, key, sort))
	}
	for i := len(l.havocs) - 1; i >= 0; i-- {
		if strings.HasPrefix(key, l.havocs[i].prefix) {
			return x.B.Var(fmt.Sprintf("H|%s@%d", key, l.havocs[i].id), sort)
		}
	}
	return x.B.UF("H|"+key, sort, l.base)
}

// heapGet returns the current content of a heap key.
func (x *Exec) heapGet(s *State, key string, sort *smt.Sort) *smt.Term {
	if v, ok := s.heap[key]; ok {
		if v.S != sort {
			panic(fmt.Sprintf("heap key %s used at sorts %s and %s", key, v.S, sort))
		}
		return v
	}
	x.keySorts[key] = sort
	v := x.lazyGet(s.lazy, key, sort)
	s.heap[key] = v
	return v
}

func (x *Exec) heapSet(s *State, key string, v *smt.Term) { s.heap[key] = v }

// havocPrefix forgets everything stored under keys starting with prefix.
func (x *Exec) havocPrefix(s *State, prefix string) {
	x.havocN++
	for k := range s.heap {
		if strings.HasPrefix(k, prefix) {
			delete(s.heap, k)
		}
	}
	s.lazy = wrapHavoc(s.lazy, prefix, x.havocN)
}

// wrapHavoc pushes a havoc record down to the leaves of a merged descriptor.
func wrapHavoc(l *lazyHeap, prefix string, id int) *lazyHeap {
	if l.a != nil {
		return &lazyHeap{cond: l.cond, a: wrapHavoc(l.a, prefix, id), b: wrapHavoc(l.b, prefix, id)}
	}
	return &lazyHeap{base: l.base, havocs: append(append([]havocRec{}, l.havocs...), havocRec{prefix, id})}
}

// havocAll models an effect of unknown extent (opaque call): every heap key gets new contents
// that are a function of the new token.
func (x *Exec) havocAll(s *State, tok *smt.Term) {
	s.heap = map[string]*smt.Term{}
	s.lazy = &lazyHeap{base: tok}
	// locals whose address (or a closure over them) was handed to unknown code
	for c := range x.shared {
		x.havocCell(s, c)
	}
}

func (x *Exec) havocCell(s *State, c *Cell) {
	s.cells[c] = x.freshValue("cell_"+c.Name, c.Type)
}

// shareValue: v is handed to code the engine does not see (argument of an arbitrary call, stored
// in the heap): the local cells it points to or captures may change at any later unknown call.
func (x *Exec) shareValue(v Value) {
	switch v := v.(type) {
	case *Ptr:
		if v.Cell != nil {
			x.shared[v.Cell] = true
		}
	case *Closure:
		for _, b := range v.Binds {
			x.shareValue(b)
		}
	case *Struct:
		for _, f := range v.Fields {
			x.shareValue(f)
		}
	}
}

func sameLazy(a, b *lazyHeap) bool {
	if a == b {
		return true
	}
	if a.a != nil || b.a != nil {
		return false
	}
	if a.base != b.base || len(a.havocs) != len(b.havocs) {
		return false
	}
	for i := range a.havocs {
		if a.havocs[i] != b.havocs[i] {
			return false
		}
	}
	return true
}

// mergeStates joins states arriving over several CFG edges; conds[i] is the edge condition
// (already including the predecessor's path condition).
func (x *Exec) mergeStates(ss []*State) *State {
	var live []*State
	for _, s := range ss {
		if s != nil && !s.Dead && !s.PC.IsFalse() {
			live = append(live, s)
		}
	}
	if len(live) == 0 {
		d := x.newState()
		d.PC = x.B.False()
		d.Dead = true
		return d
	}
	if len(live) == 1 {
		return live[0].clone()
	}
	out := live[0].clone()
	for _, s := range live[1:] {
		out = x.merge2(out, s)
	}
	return out
}

func (x *Exec) merge2(a, b *State) *State {
	B := x.B
	// value = ite(a.PC, a-value, b-value) is sound because the two path conditions are disjoint
	// refinements of the merged condition (a.PC or b.PC).
	// The common conjuncts are factored out so that selectors stay small.
	common, rests := x.factorPCs([]*smt.Term{a.PC, b.PC})
	c := x.splitSelector(a.PC, b.PC, rests[0])
	out := &State{PC: B.And(common, B.Or(rests[0], rests[1])), heap: map[string]*smt.Term{}, cells: map[*Cell]Value{}, Writes: a.Writes}
	keys := map[string]*smt.Sort{}
	for k, v := range a.heap {
		keys[k] = v.S
	}
	for k, v := range b.heap {
		keys[k] = v.S
	}
	if sameLazy(a.lazy, b.lazy) {
		out.lazy = a.lazy
	} else {
		out.lazy = &lazyHeap{cond: c, a: a.lazy, b: b.lazy}
	}
	ks := make([]string, 0, len(keys))
	for k := range keys {
		ks = append(ks, k)
	}
	sort.Strings(ks)
	for _, k := range ks {
		va := x.heapGet(a, k, keys[k])
		vb := x.heapGet(b, k, keys[k])
		out.heap[k] = B.Ite(c, va, vb)
	}
	for cell, va := range a.cells {
		if vb, ok := b.cells[cell]; ok {
			out.cells[cell] = x.ite(c, va, vb)
		} else {
			out.cells[cell] = va
		}
	}
	for cell, vb := range b.cells {
		if _, ok := a.cells[cell]; !ok {
			out.cells[cell] = vb
		}
	}
	// traces: keep the common prefix only (trace obligations are per path where they matter)
	n := len(a.Trace)
	if len(b.Trace) < n {
		n = len(b.Trace)
	}
	for i := 0; i < n && a.Trace[i] == b.Trace[i]; i++ {
		out.Trace = append(out.Trace, a.Trace[i])
	}
	return out
}

// ---------- loads and stores

func derefKey(t types.Type) string {
	if _, ok := t.Underlying().(*types.Struct); ok && !isOpaqueStruct(t) {
		return typeKey(t)
	}
	return "deref:" + typeKey(t)
}

// asPtr normalises a pointer-typed value to a *Ptr (object references become Ref roots).
func (x *Exec) asPtr(v Value, pointee types.Type) *Ptr {
	switch v := v.(type) {
	case *Ptr:
		return v
	case *smt.Term:
		return &Ptr{Ref: v, Key: derefKey(pointee), Type: pointee}
	}
	unsupported("value %T used as an address", v)
	return nil
}

func (x *Exec) load(s *State, pv Value, t types.Type) Value {
	p := x.asPtr(pv, t)
	if p.View != nil {
		return x.loadView(s, p)
	}
	switch {
	case p.Cell != nil:
		if x.escaped[p.Cell] {
			unsupported("local array %s used after it became the backing store of a slice", p.Cell.Name)
		}
		v, ok := s.cells[p.Cell]
		if !ok {
			v = x.zeroValue(p.Cell.Type)
			s.cells[p.Cell] = v
		}
		return x.navGet(v, p.Cell.Type, p.Path)
	case p.Glob != nil:
		ls := flatten(p.Type)
		ts := make([]*smt.Term, len(ls))
		for i, l := range ls {
			ts[i] = x.heapGet(s, p.Key+l.Suffix, l.Sort)
		}
		if p.Key == "glob:io.EOF" {
			x.note("library spec: io.EOF is a non-nil error, never reassigned")
			x.assumeGlobal(x.B.Neq(ts[0], x.B.IntC(0)))
		}
		return x.fromLeaves(p.Type, &ts)
	case p.Ref != nil:
		ls := flatten(p.Type)
		ts := make([]*smt.Term, len(ls))
		for i, l := range ls {
			if p.SubIdx != nil {
				arr := x.heapGet(s, p.Key+l.Suffix, smt.Array(RefS, smt.Array(I64, l.Sort)))
				ts[i] = x.B.Select(x.B.Select(arr, p.Ref), p.SubIdx)
			} else {
				arr := x.heapGet(s, p.Key+l.Suffix, smt.Array(RefS, l.Sort))
				ts[i] = x.B.Select(arr, p.Ref)
			}
			x.typeInv(s, ts[i], l)
		}
		x.sliceInv(s, ls, ts)
		rv := x.fromLeaves(p.Type, &ts)
		x.assumeIfaceTyped(rv, p.Type)
		return rv
	case p.Arr != nil:
		ls := flatten(p.Type)
		ts := make([]*smt.Term, len(ls))
		for i, l := range ls {
			arr := x.heapGet(s, p.Key+l.Suffix, smt.Array(RefS, smt.Array(I64, l.Sort)))
			if p.Off != nil {
				ts[i] = x.elemAt(x.B.Select(arr, p.Arr), p.Off, p.Rel)
			} else {
				ts[i] = x.B.Select(x.B.Select(arr, p.Arr), p.Idx)
			}
		}
		x.sliceInv(s, ls, ts)
		rv := x.fromLeaves(p.Type, &ts)
		x.assumeIfaceTyped(rv, p.Type)
		return rv
	}
	unsupported("load through %s", p)
	return nil
}

func (x *Exec) store(s *State, pv Value, t types.Type, v Value) {
	p := x.asPtr(pv, t)
	if p.View != nil {
		x.storeView(s, p, v)
		return
	}
	switch {
	case p.Cell != nil:
		if x.escaped[p.Cell] {
			unsupported("local array %s used after it became the backing store of a slice", p.Cell.Name)
		}
		old, ok := s.cells[p.Cell]
		if !ok {
			old = x.zeroValue(p.Cell.Type)
		}
		s.cells[p.Cell] = x.navSet(old, p.Cell.Type, p.Path, v)
		return
	case p.Glob != nil:
		ls := flatten(p.Type)
		ts := x.toLeaves(v, p.Type)
		for i, l := range ls {
			x.heapSet(s, p.Key+l.Suffix, ts[i])
		}
		return
	case p.Ref != nil:
		ls := flatten(p.Type)
		ts := x.toLeaves(v, p.Type)
		for i, l := range ls {
			if p.SubIdx != nil {
				as := smt.Array(RefS, smt.Array(I64, l.Sort))
				arr := x.heapGet(s, p.Key+l.Suffix, as)
				inner := x.B.Store(x.B.Select(arr, p.Ref), p.SubIdx, ts[i])
				x.heapSet(s, p.Key+l.Suffix, x.B.Store(arr, p.Ref, inner))
			} else {
				arr := x.heapGet(s, p.Key+l.Suffix, smt.Array(RefS, l.Sort))
				x.heapSet(s, p.Key+l.Suffix, x.B.Store(arr, p.Ref, ts[i]))
			}
			x.logWrite(s, p.Key+l.Suffix, p.Ref, p.SubIdx)
		}
		return
	case p.Arr != nil:
		ls := flatten(p.Type)
		ts := x.toLeaves(v, p.Type)
		for i, l := range ls {
			as := smt.Array(RefS, smt.Array(I64, l.Sort))
			arr := x.heapGet(s, p.Key+l.Suffix, as)
			inner := x.B.Store(x.B.Select(arr, p.Arr), p.Idx, ts[i])
			x.heapSet(s, p.Key+l.Suffix, x.B.Store(arr, p.Arr, inner))
			x.logWrite(s, p.Key+l.Suffix, p.Arr, p.Idx)
		}
		return
	}
	unsupported("store through %s", p)
}

func (x *Exec) logWrite(s *State, key string, ref, idx *smt.Term) {
	if s.Writes != nil {
		*s.Writes = append(*s.Writes, WriteRec{Key: key, Ref: ref, Idx: idx, Guard: s.PC})
	}
}

// typeInv adds the representation invariants of freshly loaded leaves (lengths are non-negative).
func (x *Exec) typeInv(s *State, t *smt.Term, l leaf) {}

// sliceInv: for every slice among the leaves assume 0 <= len <= cap.
func (x *Exec) sliceInv(s *State, ls []leaf, ts []*smt.Term) {
	for i, l := range ls {
		if strings.HasSuffix(l.Suffix, "#len") && i+1 < len(ls) && strings.HasSuffix(ls[i+1].Suffix, "#cap") {
			x.assumeSliceWF(ts[i-1], ts[i], ts[i+1])
			if i >= 2 && ts[i-2].S == RefS && !ts[i-2].HasBound {
				// the backing array of a slice read from memory is nil or allocated
				x.assumeLive(s, ts[i-2])
			}
		}
	}
}

func (x *Exec) assumeSliceWF(off, ln, cp *smt.Term) {
	if ln.IsConst() && cp.IsConst() {
		return
	}
	B := x.B
	f := B.And(B.BVCmp("bvsle", B.BVC(0, 64), ln), B.BVCmp("bvsle", ln, cp),
		B.BVCmp("bvsle", B.BVC(0, 64), off), B.BVCmp("bvsle", cp, B.BVC(1<<40, 64)), B.BVCmp("bvsle", off, B.BVC(1<<40, 64)))
	x.assumeGlobal(f)
}

// navGet / navSet walk inside a cell-resident composite value.
func (x *Exec) navGet(v Value, t types.Type, path []step) Value {
	for _, st := range path {
		switch u := t.Underlying().(type) {
		case *types.Struct:
			sv, isS := v.(*Struct)
			if !isS {
				// a struct owned by another module is an opaque value: a field read out of it is
				// unknown (sound for proofs: any value; two reads are not known to agree)
				v = x.freshValue("opaque_field", u.Field(st.field).Type())
				t = u.Field(st.field).Type()
				continue
			}
			v = sv.Fields[st.field]
			t = u.Field(st.field).Type()
		case *types.Array:
			// array value = Struct of SMT arrays (one per element leaf)
			s := v.(*Struct)
			ls := flatten(u.Elem())
			ts := make([]*smt.Term, len(ls))
			for i := range ls {
				ts[i] = x.B.Select(s.Fields[i].(*smt.Term), st.index)
			}
			v = x.fromLeaves(u.Elem(), &ts)
			t = u.Elem()
		default:
			unsupported("navigation into %s", t)
		}
	}
	return v
}

func (x *Exec) navSet(old Value, t types.Type, path []step, nv Value) Value {
	if len(path) == 0 {
		return nv
	}
	st := path[0]
	switch u := t.Underlying().(type) {
	case *types.Struct:
		os, isS := old.(*Struct)
		if !isS {
			// a struct owned by another module is an opaque value: after a field store it is
			// some other opaque value
			return x.freshValue("opaque", t)
		}
		ns := &Struct{Fields: append([]Value{}, os.Fields...)}
		ns.Fields[st.field] = x.navSet(os.Fields[st.field], u.Field(st.field).Type(), path[1:], nv)
		return ns
	case *types.Array:
		os := old.(*Struct)
		ls := flatten(u.Elem())
		cur := make([]*smt.Term, len(ls))
		for i := range ls {
			cur[i] = x.B.Select(os.Fields[i].(*smt.Term), st.index)
		}
		curv := x.fromLeaves(u.Elem(), &cur)
		upd := x.navSet(curv, u.Elem(), path[1:], nv)
		uls := x.toLeaves(upd, u.Elem())
		ns := &Struct{Fields: make([]Value, len(ls))}
		for i := range ls {
			ns.Fields[i] = x.B.Store(os.Fields[i].(*smt.Term), st.index, uls[i])
		}
		return ns
	}
	unsupported("navigation into %s", t)
	return nil
}

// ---------- unsafe slot views: *(*K)(unsafe.Pointer(&ints[i])) on a []uint64 element

func (x *Exec) loadView(s *State, p *Ptr) Value {
	under := *p
	under.View = nil
	raw := x.load(s, &under, under.Type)
	word, ok := raw.(*smt.Term)
	if !ok || word.S != I64 {
		unsupported("unsafe view of a non-uint64 location")
	}
	return x.viewRead(s, &under, word, p.View)
}

func (x *Exec) viewRead(s *State, under *Ptr, word *smt.Term, vt types.Type) Value {
	B := x.B
	// NaN payloads are identified (one NaN per format, as in SMT-LIB): a slot read as a float
	// holds the canonical bit pattern of its value
	canon := func(bits *smt.Term, fs *smt.Sort) *smt.Term {
		f := B.FPFromBits(bits, fs)
		x.note("floating point (assumed): NaN payloads are identified; a slot holds the canonical bit pattern of the float stored in it")
		B.FPToBits(B.Var("fp!reg", fs)) // makes sure the uninterpreted fp2bits exists
		raw := B.UF(fmt.Sprintf("fp2bits_%d", fs.M), smt.BV(fs.E+fs.M), f)
		x.assumeGlobal(B.Eq(raw, bits))
		return f
	}
	_ = canon
	b, ok := vt.Underlying().(*types.Basic)
	if !ok {
		unsupported("unsafe view as %s", vt)
	}
	switch b.Kind() {
	case types.Bool:
		return B.Neq(B.Extract(7, 0, word), B.BVC(0, 8))
	case types.Int8, types.Uint8:
		return B.Extract(7, 0, word)
	case types.Int16, types.Uint16:
		return B.Extract(15, 0, word)
	case types.Int32, types.Uint32:
		return B.Extract(31, 0, word)
	case types.Int, types.Int64, types.Uint, types.Uint64, types.Uintptr:
		return word
	case types.Float32:
		return canon(B.Extract(31, 0, word), smt.FP32)
	case types.Float64:
		return canon(word, smt.FP64)
	case types.Complex64:
		return &Struct{[]Value{canon(B.Extract(31, 0, word), smt.FP32), canon(B.Extract(63, 32, word), smt.FP32)}}
	case types.Complex128:
		next := *under
		next.Idx = B.BVBin("bvadd", under.Idx, B.BVC(1, 64))
		if next.Rel != nil {
			next.Rel = B.BVBin("bvadd", under.Rel, B.BVC(1, 64))
		}
		w2 := x.load(s, &next, next.Type).(*smt.Term)
		return &Struct{[]Value{canon(word, smt.FP64), canon(w2, smt.FP64)}}
	}
	unsupported("unsafe view as %s", vt)
	return nil
}

func (x *Exec) storeView(s *State, p *Ptr, v Value) {
	B := x.B
	under := *p
	under.View = nil
	old := x.load(s, &under, under.Type).(*smt.Term)
	b, ok := p.View.Underlying().(*types.Basic)
	if !ok {
		unsupported("unsafe view as %s", p.View)
	}
	var nw *smt.Term
	switch b.Kind() {
	case types.Bool:
		nw = B.Concat(B.Extract(63, 8, old), B.Ite(v.(*smt.Term), B.BVC(1, 8), B.BVC(0, 8)))
	case types.Int8, types.Uint8:
		nw = B.Concat(B.Extract(63, 8, old), v.(*smt.Term))
	case types.Int16, types.Uint16:
		nw = B.Concat(B.Extract(63, 16, old), v.(*smt.Term))
	case types.Int32, types.Uint32:
		nw = B.Concat(B.Extract(63, 32, old), v.(*smt.Term))
	case types.Int, types.Int64, types.Uint, types.Uint64, types.Uintptr:
		nw = v.(*smt.Term)
	case types.Float32:
		nw = B.Concat(B.Extract(63, 32, old), B.FPToBits(v.(*smt.Term)))
	case types.Float64:
		nw = B.FPToBits(v.(*smt.Term))
	case types.Complex64:
		c := v.(*Struct)
		nw = B.Concat(B.FPToBits(c.Fields[1].(*smt.Term)), B.FPToBits(c.Fields[0].(*smt.Term)))
	case types.Complex128:
		c := v.(*Struct)
		x.store(s, &under, under.Type, B.FPToBits(c.Fields[0].(*smt.Term)))
		next := under
		next.Idx = B.BVBin("bvadd", under.Idx, B.BVC(1, 64))
		if next.Rel != nil {
			next.Rel = B.BVBin("bvadd", under.Rel, B.BVC(1, 64))
		}
		x.store(s, &next, next.Type, B.FPToBits(c.Fields[1].(*smt.Term)))
		return
	default:
		unsupported("unsafe view as %s", p.View)
	}
	x.store(s, &under, under.Type, nw)
}
